#!/bin/bash
# MANIFEST.setup_cmd: overlay venv (python of /venv + /venv site-packages + /repo on sys.path) with
# crosshair-tool / z3-solver from the offline wheelhouse.  Idempotent; offline.
set -e
cd "$(dirname "$0")"
V=/verif/.venv
if [ ! -x $V/bin/python ] || ! $V/bin/python -c "import crosshair, z3, molli" 2>/dev/null; then
  rm -rf $V
  /venv/bin/python -m venv $V
  SP=$($V/bin/python -c "import sysconfig; print(sysconfig.get_paths()['purelib'])")
  printf '/venv/lib/python3.12/site-packages\n/repo\n' > $SP/base.pth
  PIP_NO_INDEX=1 $V/bin/pip install -q --no-index --find-links /opt/veriftools/wheels crosshair-tool z3-solver >/dev/null
fi
$V/bin/python -c "import crosshair, z3, molli; print('overlay venv ok: crosshair', crosshair.__version__, 'z3', z3.get_version_string())"
