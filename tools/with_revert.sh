#!/bin/bash
# tools/with_revert.sh <fix-commit> <command...> : undo one fix: commit in /repo's working tree, run the command, always restore.
C=$1; shift
git -C /repo diff --quiet || { echo "/repo has uncommitted changes" >&2; exit 3; }
git -C /repo show $C | git -C /repo apply -R || { echo "reverse patch does not apply" >&2; exit 3; }
"$@"; rc=$?
git -C /repo checkout -- . && git -C /repo clean -fdq -- molli molli_test >/dev/null 2>&1
exit $rc
