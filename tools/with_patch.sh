#!/bin/bash
# tools/with_patch.sh <patch.diff> <command...> : apply a patch to /repo, run the command, always undo the patch.
P=$(realpath "$1"); shift
git -C /repo diff --quiet || { echo "/repo has uncommitted changes" >&2; exit 3; }
git -C /repo apply "$P" || { echo "patch does not apply" >&2; exit 3; }
"$@"; rc=$?
git -C /repo checkout -- . && git -C /repo clean -fdq -- molli molli_test >/dev/null 2>&1
exit $rc
