#!/bin/bash
# runs molli's pinned suite and checks that every test of BASELINE.json's stable_pass list passes
cd /repo && /venv/bin/python -m pytest -ra -q -p no:cacheprovider --timeout=900 --continue-on-collection-errors --junitxml=/tmp/verif_baseline.xml >/tmp/verif_baseline.log 2>&1
python3 - <<'PY'
import json, xml.etree.ElementTree as ET
want = set(json.load(open('/root/.vp/BASELINE.json'))['stable_pass'])
ok = set()
for tc in ET.parse('/tmp/verif_baseline.xml').getroot().iter('testcase'):
    if not any(c.tag in ('failure', 'error', 'skipped') for c in tc):
        ok.add(f"{tc.get('classname')}::{tc.get('name')}")
miss = sorted(want - ok)
print(f"baseline: {len(want & ok)}/{len(want)} stable tests pass", "MISSING: " + ", ".join(miss) if miss else "")
raise SystemExit(1 if miss else 0)
PY
