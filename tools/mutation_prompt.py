#!/usr/bin/env python3
"""prints the prompt handed to a fresh sub-agent for property <id> (only the property text + a scratch worktree path)"""
import json, sys
pid = sys.argv[1]; tag = sys.argv[2] if len(sys.argv) > 2 else "a"
p = next(json.loads(l) for l in open('/verif/properties.jsonl') if json.loads(l)['id'] == pid)
wt = f"/tmp/mut_{pid}_{tag}"
print(f"""You are helping to evaluate a verification tool. Your job: produce ONE realistic, subtle regression in the Python project SEDenmarkLab/molli that breaks a stated semantic property while the project still imports/compiles and its existing test suite still passes.

Work ONLY in your own scratch git worktree. Create it with:
    git -C /repo worktree add --detach {wt} HEAD
and do all edits and experiments inside {wt} (never edit /repo itself, never look at or use anything under /verif). Run python as /venv/bin/python with PYTHONPATH={wt} so that your modified copy of `molli` is the one imported (check `molli.__file__`). A fresh worktree lacks the untracked compiled extension: copy it in first with `cp /repo/molli_xt*.so {wt}/` (it will not appear in your diff). The existing test suite is run with:
    cd {wt} && PYTHONPATH={wt} /venv/bin/python -m pytest -q -p no:cacheprovider --timeout=900 molli_test
(4 tests fail already on the unmodified tree because a data file is empty: test_conformer_to_lib, test_ensemble_lib, test_load_all, test_loads_all; some are skipped. Your change must not make any additional test fail.)

THE PROPERTY (id {pid}): {p['title']}
Statement: {p['statement']}
Quantified over: {p['quantifier']['text']}
Relevant files: {', '.join(p['anchors']['files'])}
Mechanisms meant to make it hold: {'; '.join(m['name'] + ' (' + m.get('where','') + ')' for m in p['anchors']['mechanism'])}

WHAT TO PRODUCE
1. A small source change (a few lines, in the molli package, not in tests) that violates the property. It must be the kind of mistake a developer could plausibly make (an optimisation, a refactor, an off-by-one, a wrong default, a reordered statement, a missed case...), NOT sabotage that ordinary use would expose at once. It should need something specific to manifest: a particular multi-step sequence of operations, an unusual-but-legal input or size, a boundary value, a fault/crash at a particular point, or two cooperating sites that each look fine alone. Prefer a change whose trigger is rare within the input space.
2. A demonstration script `demo.py` (plain python, run as `PYTHONPATH=<tree> /venv/bin/python demo.py`) that exits 0 and prints PASS on the unmodified tree and exits 1 and prints FAIL on your modified tree, by exercising molli's public API and checking the property's statement directly.
3. Confirm yourself: (a) existing tests: same pass/fail set as before with your change; (b) demo passes on unmodified /repo (PYTHONPATH=/repo), fails on {wt}.

DELIVERABLES: write these files into {wt}/_mutation/ :
  - patch.diff   (output of `git -C {wt} diff` — the source change only, no new files in it)
  - demo.py
  - notes.md     (3-6 lines: what the change is, why it breaks the property, exactly what is needed for it to manifest, what you ran and saw)
Do NOT commit anything and do NOT remove the worktree (the caller will collect the files and clean up). In your final answer, state the path of the _mutation directory and summarise the change in 2-3 sentences.""")
