#!/usr/bin/env python3
"""Regenerates MANIFEST.json from the table below (kept in one place so the manifest is always valid)."""
import json, os
ROOT = os.path.dirname(os.path.dirname(os.path.abspath(__file__)))
ALL = [f"C{i:02d}" for i in range(1, 20)]
XH = "bounded symbolic execution of the real Python code with CrossHair; z3 decides every path; counterexamples replayed on the real environment"
CHECKS = {
    "C01": dict(engine="XH", technique="CrossHair symbolic execution (z3 per path) of MoleculeLibrary/ConformerLibrary store+load with symbolic field values; msgpack replaced by a validated pure-Python codec model",
                text="For every value of the symbolic fields (name, charge, mult, isotope/label None-ness and content, type/stereo/geometry ints, formal charge/spin, bond label/type/stereo/endpoints, nested attribute ints) and each concrete cell (element of atom 0 in {Unknown,H,C,Og}, 0-3 atoms, 0-2 bonds, 0-2 conformers, arrays with NaN/negative/float32-inexact values; v2 and legacy v1) all CrossHair paths confirm field-by-field equality and array shapes after the real library write/read path. Bounded symbolic verification.",
                note="Trusts CrossHair+z3, the HandleCodec model of msgpack (validated against msgpack every run) and the storage models; numpy buffers are concrete; counterexamples are replayed with real msgpack and real files.",
                design="3/C01"),
    "C05": dict(engine="XH", technique="CrossHair symbolic execution of edit histories on real Molecule/Structure objects; operation and operand selectors symbolic, z3 decides each path [selector-bound]",
                text="All edit histories of length 1 (every applicable move), 2 and (thorough) 3 over the stated move menu from empty / mol2-loaded / cloned start states are explored path by path by CrossHair and compared after every step with a reference model keyed by atom identity (rows, dtypes, per-atom coordinate and charge, bond endpoints, deleted bonds, parent, idx). The solver enumerates a finite menu here; it adds no generalisation beyond it.",
                note="Selector-bound: exhaustive over the bounded menu, not over arbitrary histories (random length-40 histories of the quantifier are not reproduced). One recorded known finding (append_bond with a foreign atom) is excluded by predicate and re-witnessed on every run.",
                design="3/C05"),
    "C06": dict(engine="XH", technique="CrossHair symbolic execution of copy routes (constructors, evolve, pickle, deepcopy, concatenate, ensemble routes) with symbolic field values, route and mutation selectors; z3 decides each path",
                text="For each of 15 copy routes, every mutation of a 14-entry menu applied to either side, and all values of the symbolic fields (charge incl. 0, multiplicity, label None/empty/non-empty, attribute value, partial-charge rows incl. all-zero): the copy equals the source in every observable field of its class, atoms/bonds report the copy as parent with correct indices, and a deep snapshot of the untouched side is unchanged. pickle/deepcopy/concatenate run on concrete field values (C code).",
                note="Bounded: one 3-atom source (and its 2-conformer ensemble), one mutation after the copy; pickle and deepcopy are exercised with selectors only. Shallow copy.copy is outside the property.",
                design="3/C06"),
    "C07": dict(engine="XH", technique="CrossHair symbolic execution of get/set_mol2_type over symbolic atom-type/geometry/bond-type ints for all 119 elements (z3 splits on molli's match arms), plus selector-driven whole-text write/read cycles",
                text="Type vocabulary: for every element and every (atom type, geometry) in [0,250]x[0,70] and bond type in [0,110], all paths confirm that the emitted token is accepted by the reader, keeps the element (Dummy rule), preserves Tripos-expressible bond types and is a fixed point of write/read. Whole text: Molecule/Structure/ConformerEnsemble with 0-3 atoms over curated menus of names, labels, elements, coordinates, charges and types read back with the listed fields to 1e-6 / 1e-3 and re-dump to identical text.",
                note="Strings come from menus (regex-based parsing of symbolic text is out of CrossHair's reach): the whole-text part is selector-bound; quick tier varies menu dimensions pairwise, thorough tier takes the full product.",
                design="3/C07"),
    "C08": dict(engine="XH+SR", technique="SR: the real yield_from_xyz / yield_from_mol2 unit branch and scale() executed on z3 Real coordinates, one linear-real query per unit and component with numeric replay; XH: selector-driven xyz write/read cycles",
                text="Units: for every member and alias of DistanceUnit and both readers, z3 shows that for ALL real coordinates the value returned is within 1e-4 relative of the coordinate times an independent Angstrom-per-unit table (unsat), i.e. physical distances are unchanged; models are replayed through the real text parsers. Round trip: every element in every geometry class, 0-3 atoms, 1-3 frames and a coordinate menu read back with count, order, elements and coordinates to 1e-6.",
                note="Reals, not floats, in the unit proof (factor rounding sits inside the tolerance); the text round trip is selector-bound; the parsers are replaced by a one-block stub in the SR part only.",
                design="3/C08"),
    "C09": dict(engine="XH", technique="CrossHair symbolic execution of ml.load/loads/load_all/loads_all/dump/dumps with function, format, output type, name, target kind and mode as symbolic selectors on an in-memory file model; z3 decides each path [selector-bound]",
                text="Every cell of the matrix {load, loads, load_all, loads_all} x {xyz, mol2, cdxml, pdb, nonsense, XYZ} x {'molecule','ensemble', Molecule, Structure, ConformerEnsemble} x name {None,'zz',''} x explicit/suffix format and {dump, dumps} x formats x {Molecule, Structure, ConformerEnsemble} x {caller's stream, path by suffix, path + format} x {a, w} is compared with the class-method result on the same input: type, list-ness, names incl. override, atoms, coordinates, text written, caller's stream left open, own streams closed, ValueError for unsupported formats.",
                note="Selector-bound: the solver enumerates configuration cells; inputs are two small generated files and one bundled CDXML file; openbabel branches are outside (not installed). Replay uses real temporary files.",
                design="3/C09"),
    "C10": dict(engine="XH", technique="CrossHair symbolic execution of the real mol2/xyz readers with the damage position (byte offset, line, token) and kind as symbolic selectors; z3 decides each path [selector-bound]",
                text="For the generated 2-molecule mol2 and 2-frame xyz texts: every truncation offset, every single line deletion/duplication and every single token corruption (integer +-1, numeric -> 'x', token dropped) leads to an exception or to molecules that have exactly the atom/bond counts of their own header and the content of the corresponding undamaged molecule; the readers terminate (line budget). Exhaustive over single damages of these two texts.",
                note="Selector-bound (the solver enumerates positions; a symbolic offset into concrete text is realised by CrossHair). Cuts inside the last numeric token of the file are undetectable for any reader and only checked for counts. Multiple simultaneous damages and other files are outside the bound.",
                design="3/C10"),
    "C11": dict(engine="SR", technique="symbolic-real execution of the real rotation / geometry functions on numpy object arrays of z3 Real terms; per-component QF_NRA queries (z3 nlsat) in hard-killed workers; numeric replay of models",
                text="For ALL real inputs within the stated non-degeneracy assumptions: rotation_matrix_from_axis is a proper rotation about its axis by its angle (orthogonality, det, axis fixed, trace); rotation_matrix_from_vectors (generic branch) is proper and maps v1n to v2n; the antiparallel branch takes one loop pass and returns the product of two recursive results that chain v1 -> aux -> v2; translate / transform / Substructure edits / ensemble translate, rotate, center_at_atom, center_at_core keep all pairwise distances and the signed volume and move exactly the selected atoms; rotate_dihedral leaves the dihedral at the target, the fixed side unchanged and the moved side rigid. Every query answered unsat; negative controls sat.",
                note="Reals, not floats: rounding and the 1e-12 neighbourhood of antiparallel vectors are outside. Antiparallel lemma (e) and Kabsch alignment (scipy/rmsd) are NOT claimed. sqrt/reciprocal/sin/cos are exact fresh-variable encodings; recursive calls and the RNG are contract stubs.",
                design="3/C11"),
    "C12": dict(engine="XH+SR", technique="SR: the real Structure.join / rotation_matrix_from_vectors / _optimize_rotation executed on z3 Real coordinates, per-component QF_NRA queries with numeric replay; XH: CrossHair symbolic execution of join and of molli combine's _ml_assemble with symbolic charges, overrides and configuration selectors",
                text="Geometry (SR): for ALL real coordinates of two fragments (2-4 atoms + attachment point each) and every requested length > 0, z3 shows the new bond has that length and points along A's attachment vector, both fragments keep all pairwise distances and their signed volume, with optimize_rotation the pose is the plain pose with B turned about the new bond (assume/guarantee chain), exactly (anti)parallel attachment vectors along 4 rational directions with symbolic lengths go through the REAL rotation code, the product does not change when the RNG returns different numbers, and _optimize_rotation returns the scanned pose of minimal loss. Constitution (XH): charges in [-3,3], multiplicities in [1,4], Optional overrides incl. 0 symbolic; atom and bond multisets, new bond, parents/indices, partial charges, untouched sources over 4 fragment kinds x attachment host x options; combine: every ordered selection of attachment points.",
                note="Reals, not floats. rotation_matrix_from_vectors is replaced by its C11 contract in the generic-pose geometry goals and _optimize_rotation by 'rotation about the given axis' (the real functions are analysed separately); the compiled kernel is replaced by its contract. The XH constitution part is selector-bound.",
                design="3/C12"),
    "C15": dict(engine="XH", technique="CrossHair symbolic execution of yield_bfsd/yield_bfs/is_bond_in_ring/adjacency queries with symbolic edge bits, start, direction and bond types, compared with an independent reference; _node_match/_edge_match as pure functions over symbolic ints; matcher cells enumerated by the solver [selector-bound]",
                text="Every labelled graph on 4 atoms (quick; plain traversal also on every 5-atom graph) / 5 atoms (thorough), every start atom, direction and bond in both orientations, on Connectivity, Molecule and ConformerEnsemble: traversal yields each other atom of the component once, in non-decreasing true shortest-path distance; with a direction exactly the atoms behind that neighbour; ring iff not a bridge; adjacency queries and bonded valence agree with the bond list. Matching: for every host graph, 8 connected patterns and element assignments over {Unknown,C,N} the returned maps are exactly the brute-force induced embeddings, each once. _node_match/_edge_match: wildcard, reflexivity, element exclusion, NotConnected for all symbolic field values.",
                note="Selector-bound: the solver enumerates a finite space of small graphs; graphs on 6-40 atoms of the quantifier are not covered. The networkx matcher runs untraced on the concrete cell chosen by the solver (2.5 s/path under the tracer); its node/edge predicates are executed symbolically on their own.",
                design="3/C15"),
    "C16": dict(engine="XH+SR", technique="XH: CrossHair symbolic execution of add_implicit_hydrogens with symbolic formal charge, spin and drawing hint (z3 splits on the count formula and placement branches); SR: the real placement code on z3 Real coordinates, QF_NRA queries (nlsat + SMT-core portfolio) with numeric replay",
                text="Counts (XH): for every centre of groups 13-16, formal charge and spin in [-3,3], hint None/0..4, 0-3 neighbours and first bond type, all paths confirm that only hydrogens are added, existing atoms/bonds/coordinates/charges are untouched, each atom receives its hint or max(0, 4-|4-(VE-q-|s|)|-ceil(bonded valence)) (independent valence table), each new hydrogen is bonded once to that atom at the sum of covalent radii, finite, pointing away from the neighbours' centroid, and a second call on a hint-free molecule adds nothing. Placement (SR): for ALL real coordinates in non-degenerate geometry of 9 chemistries (1/2/3 neighbours, bare atoms; +1..+4 H) the distance (1e-3) and direction clauses hold and no denominator can vanish (unsat).",
                note="Reals, not floats in SR. rotation_matrix_from_vectors (symbolic arguments) and mean_plane (SVD) are replaced by contracts; non-degeneracy = neighbours off the atom, no collinear pair, three-neighbour centres > 0.1 A out of plane. Zero-order bonds and hints above four substituents are outside. XH part uses one concrete template geometry.",
                design="3/C16"),
    "C14": dict(engine="XH+SHP", technique="CrossHair symbolic execution of the real ConformerEnsemble/Conformer code on a shape-level numpy model with symbolic extents (n_conformers up to 1000), plus real-numpy content scenarios; z3 decides each path",
                text="One inductive step from an arbitrary rectangular state: for every constructor branch, each of 17 operations, all n_conformers in [0,1000] (symbolic, linear integer arithmetic over array extents), n_atoms 0..3 and every conformer index, the three parallel arrays keep matching extents and every conformer view reads coordinates and charges. On real numpy (extents <= 3): writes through a conformer change row i only, iteration (nested, interleaved, suspended) visits each conformer once in order, grown ensembles dump and serialise.",
                note="The shape model (engine/shapenp.py) is validated against numpy on ~10k concrete shape cases per run; array *content* is only checked at concrete small extents; a symbolic conformer index bypasses __getitem__'s match statement (CrossHair artefact) and constructs the Conformer directly.",
                design="3/C14"),
    "C02": dict(engine="XH", technique="CrossHair symbolic execution (z3 per path) of UKVFile/Collection on pure-Python file/struct/dict models, symbolic bytes, buffer size, stale-prefix and operation selectors",
                text="Every CrossHair condition is 'Confirmed over all paths' inside the bound (<=3 records, keys 1-2 B + 255/256 B, values <=2-3 B, bufsize in [-1,200], <=3 handles, <=3 sessions): one operation from every stale-handle state, failed operations leave file and views unchanged, headers preserved, listed keys readable in-session, 2-handle session histories. Bounded symbolic verification, not a proof for larger files.",
                note="Trusts CrossHair+z3 and the PyStruct/MemStream/FakePath/AssocDict/RWLock models (differentially validated against struct, real files and dict on every run); counterexamples are replayed with real struct, files and fasteners before being reported.",
                design="3/C02"),
    "C03": dict(engine="XH", technique="CrossHair symbolic execution of UKVFile/backend append sessions on a write-recording file model; crash offset, key/value bytes symbolic; z3 decides every path",
                text="Crash image = pre-image + the recorded writes applied in order up to a symbolic byte offset; for every offset and all key/value bytes within the bound (1-2 puts, 0-1 prior record, keys 1-2 B, values <=2-3 B) z3-decided paths confirm: committed records exact, session records complete-or-absent, recovery appends (and a second crash inside the recovery append) read back. Bounded symbolic verification.",
                note="Trusts CrossHair+z3 and the file/struct/dict models (validated each run); assumes bytes reach the disk in program order; counterexamples replayed on real files with a recording stream wrapper.",
                design="3/C03"),
    "C04": dict(engine="XH", technique="CrossHair symbolic execution of reading()/writing() sessions with a symbolic fault step (k-th write, close, open, encoder, body, flush) on lock/file models; z3 decides every path",
                text="Fault-sequence and session-granularity part of the property only: for a fault injected at a symbolic step of a reading()/writing() session, all paths confirm lock released, file closed, state idle, next sessions on the same and a fresh handle proceed and see exactly the completed records; 3-session schedules over 2 handles confirm writers exclude and readers share at the call-site level. Real multi-process schedules and fcntl lock correctness are NOT covered.",
                note="The reader/writer lock is a bookkeeping model (fasteners' fcntl semantics across processes are trusted, not verified); real replay probes the lock from a fresh process. Multi-process random-delay schedules of the quantifier are outside this technique.",
                design="3/C04"),
}
NA_MAP = {}
NA_REASON = "check not built yet in this round (claimed once its harness lands)"
m = {
    "version": 1,
    "setup_cmd": "./setup.sh",
    "hooks": {"guard": "MOLLI_VERIF (unused: no hook in /repo is needed, models are injected from the harness process)",
              "enable": "none needed; checks import /repo's working tree directly",
              "baseline_off_cmd": "cd /repo && /venv/bin/python -m pytest -ra -q -p no:cacheprovider --timeout=900 --continue-on-collection-errors",
              "source_commits": [], "add_only": True},
    "engines": [
        {"name": "XH", "path": "engine/xh.py", "serves_properties": sorted(k for k, v in CHECKS.items() if "XH" in v["engine"]), "kind_free_text": XH},
        {"name": "SHP", "path": "engine/shapenp.py", "serves_properties": ["C14"], "kind_free_text": "shape-level numpy model (arrays = symbolic shape tuples) under CrossHair, differentially validated against numpy each run"},
        {"name": "SR", "path": "engine/sr.py", "serves_properties": sorted(k for k, v in CHECKS.items() if "SR" in v["engine"]),
         "kind_free_text": "symbolic-real execution of molli's numeric functions on numpy object arrays of z3 Real terms; per-component QF_NRA queries, hard-killed workers, numeric replay"},
    ],
    "checks": [],
    "not_applicable": [],
    "notes": "All checks are solver-based (CrossHair/z3 symbolic execution of the real code, z3 QF_NRA/QF_FP queries generated from the real code). Exit 0 = all obligations discharged, 1 = reproduced violation, 2 = inconclusive/harness error. See DESIGN.md.",
}
for pid in ALL:
    if pid in CHECKS:
        c = CHECKS[pid]
        m["checks"].append({
            "property_id": pid,
            "quick_cmd": f"./vcheck {pid} --tier quick",
            "thorough_cmd": f"./vcheck {pid} --tier thorough",
            "evidence_file": f"evidence/{pid}.json",
            "replay_cmd_template": "./vcheck --replay {path}",
            "engine": c["engine"],
            "level_claimed": {"category": c.get("category", "other"), "text": c["text"], "design_ref": c["design"]},
            "level_note": c["note"],
            "technique": c["technique"],
        })
    else:
        m["not_applicable"].append({"property_id": pid, "reason": NA_MAP.get(pid, NA_REASON)})
json.dump(m, open(os.path.join(ROOT, "MANIFEST.json"), "w"), indent=1)
print("checks:", [c["property_id"] for c in m["checks"]], "n/a:", [n["property_id"] for n in m["not_applicable"]])
