#!/bin/bash
# tools/on_tree.sh <patch.diff | -R <fix-commit>> <property> [tier] : run a check against a scratch worktree of /repo with the patch applied
# (development aid: lets several mutation runs go in parallel without touching /repo; evidence goes to a scratch directory).
# The official way — apply to /repo, run, undo — is tools/with_patch.sh.
if [ "$1" = "-R" ]; then REV=$2; shift 2; else P=$(realpath "$1"); shift; fi
PROP=$1; TIER=${2:-quick}
W=$(mktemp -d /tmp/ontree_XXXXXX); rmdir $W
git -C /repo worktree add --detach $W HEAD >/dev/null 2>&1 || exit 3
trap 'git -C /repo worktree remove --force $W >/dev/null 2>&1; rm -rf $W.ev' EXIT
cp /repo/molli_xt*.so $W/ 2>/dev/null
if [ -n "$REV" ]; then git -C /repo show $REV | git -C $W apply -R || exit 3; else git -C $W apply "$P" || { echo "patch does not apply"; exit 3; }; fi
mkdir -p $W.ev
VERIF_TARGET=$W VERIF_EVID=$W.ev /verif/vcheck $PROP --tier $TIER; rc=$?
exit $rc
