#!/bin/bash
# tools/confirm_mutation.sh <mutation_dir with patch.diff + demo.py> : confirm in a scratch worktree that
# (a) the patch applies, (b) the stable baseline tests still pass with it, (c) demo passes without / fails with the patch.
D=$(realpath "$1"); W=/tmp/confirm_$$
git -C /repo worktree add --detach $W HEAD >/dev/null 2>&1 || exit 3
cp /repo/molli_xt*.so $W/ 2>/dev/null
trap 'git -C /repo worktree remove --force $W >/dev/null 2>&1' EXIT
cd $W && git apply "$D/patch.diff" || { echo "PATCH DOES NOT APPLY"; exit 3; }
PYTHONPATH=$W /venv/bin/python -c "import molli; assert molli.__file__.startswith('$W'), molli.__file__" || exit 3
PYTHONPATH=$W /venv/bin/python -m pytest -q -p no:cacheprovider --timeout=900 --continue-on-collection-errors --junitxml=$W/_j.xml molli_test >/dev/null 2>&1
python3 - $W/_j.xml <<'PY'
import json, sys, xml.etree.ElementTree as ET
want = set(json.load(open('/root/.vp/BASELINE.json'))['stable_pass'])
ok = {f"{tc.get('classname')}::{tc.get('name')}" for tc in ET.parse(sys.argv[1]).getroot().iter('testcase') if not any(c.tag in ('failure','error','skipped') for c in tc)}
miss = sorted(want - ok)
print(f"tests with patch: {len(want & ok)}/{len(want)} stable pass", miss)
sys.exit(1 if miss else 0)
PY
T=$?
cd /tmp; PYTHONPATH=/repo timeout 600 /venv/bin/python "$D/demo.py" >/tmp/confirm_demo_clean.log 2>&1; A=$?
PYTHONPATH=$W timeout 600 /venv/bin/python "$D/demo.py" >/tmp/confirm_demo_mut.log 2>&1; B=$?
echo "demo clean exit=$A ($(tail -1 /tmp/confirm_demo_clean.log | cut -c1-100)); demo mutated exit=$B ($(tail -1 /tmp/confirm_demo_mut.log | cut -c1-100))"
[ $T -eq 0 ] && [ $A -eq 0 ] && [ $B -ne 0 ] && echo CONFIRMED || { echo NOT-CONFIRMED; exit 1; }
