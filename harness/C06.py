"""C06 — copies are faithful and independent; derived molecules never alter their sources (XH)."""
import os, copy, pickle
from typing import Optional
import numpy as np
from molli.chem import Atom, Bond, Molecule, Structure, CartesianGeometry, Connectivity, Promolecule, ConformerEnsemble, Element

SPLIT = int(os.environ.get("XH_SPLIT", "-1"))

ROUTES = ["Molecule(m)", "Structure(m)", "CartesianGeometry(m)", "Connectivity(m)", "Promolecule(m)", "pickle", "deepcopy",
          "concatenate", "Atom.evolve", "Bond.evolve", "ConformerEnsemble(m)",
          "ConformerEnsemble(e)", "ens pickle", "ens deepcopy", "Molecule(e[i])"]
C_ROUTES = {"pickle", "deepcopy", "ens pickle", "ens deepcopy", "concatenate"}   # C code (pickle, numpy sum of charges): field values concrete there
MUTS = ["atom attrib in tuple", "bond attrib in tuple", "mol attrib in tuple", "atom label", "atom attrib entry", "atom attrib nested", "atom element", "bond type", "bond attrib entry", "coord cell", "charge cell",
        "mol attrib entry", "mol attrib nested", "add atom", "del atom", "add hydrogens", "mol charge", "key into an empty bond attrib", "key into an empty atom attrib"]


def deep(x):
    if isinstance(x, dict):
        return {k: deep(v) for k, v in x.items()}
    if isinstance(x, (list, tuple)):
        return [deep(v) for v in x]
    return x


def _nn(x):
    """NaN-safe nested list (NaN != NaN would make every snapshot of an unset coordinate array differ from itself)"""
    if isinstance(x, list):
        return [_nn(v) for v in x]
    return "nan" if x != x else x


def snap(o):
    """deep structural snapshot of every observable field the object's class has"""
    s = {"name": o.name, "charge": o.charge, "mult": o.mult, "attrib": deep(o.attrib)}
    s["atoms"] = [(int(a.element), a.isotope, a.label, int(a.atype), int(a.stereo), int(a.geom), a.formal_charge, a.formal_spin, deep(a.attrib)) for a in o.atoms]
    if hasattr(o, "bonds"):
        s["bonds"] = [(o.atoms.index(b.a1), o.atoms.index(b.a2), b.label, int(b.btype), int(b.stereo), b.f_order, deep(b.attrib)) for b in o.bonds]
    if hasattr(o, "coords"):
        s["coords"] = _nn(np.asarray(o.coords).tolist())
    if hasattr(o, "atomic_charges"):
        s["q"] = _nn(np.asarray(o.atomic_charges).tolist())
    if hasattr(o, "weights"):
        s["w"] = np.asarray(o.weights).tolist()
    return s


def wired(o):
    """parents and indices of atoms and bonds are those of this object"""
    for i, a in enumerate(o.atoms):
        if a.parent is not o or a.idx != i:
            return False
    if hasattr(o, "bonds"):
        for b in o.bonds:
            if b.parent is not o or not any(b.a1 is a for a in o.atoms) or not any(b.a2 is a for a in o.atoms):
                return False
    return True


def mk_mol(charge, mult, label, aval, qsel):
    q = [[0.5, -0.25, 0.125], [0.0, 0.0, 0.0], [-1.5, 2.0, 0.75]][qsel]
    m = Molecule([Atom("C", label=label, isotope=13, formal_charge=-1, attrib={"x": aval, "l": [1, 2], "t": ("LP", [0.5, {"d": 1}])}), Atom("O", label="o", stereo=10),
                  Atom("H", label="h")], name="src", charge=charge, mult=mult,
                 coords=[[0.0, 0.1, 0.2], [1.2, 0.0, 0.0], [-0.6, 0.9, 0.0]], atomic_charges=q, attrib={"k": aval, "lst": [1, [2]], "tup": (1, [2])})
    m.connect(0, 1, btype=2, label="b01", attrib={"bo": aval, "bt": ([1],)})
    m.connect(0, 2, stereo=11)
    return m


def mk_ens(charge, mult, label, aval, qsel):
    m = mk_mol(charge, mult, label, aval, qsel)
    e = ConformerEnsemble(m, n_conformers=2)
    e.coords = [m.coords, m.coords * 2 + 1]
    e.atomic_charges = [m.atomic_charges, m.atomic_charges + 1]
    e.weights = [0.75, 0.25]
    return e


def sub(s, keys):
    return {k: s[k] for k in keys if k in s}


def mutate(o, mut):
    """apply one mutation through the public API; returns False if it is not applicable to this object"""
    name = MUTS[mut]
    if name == "atom attrib in tuple":
        if "t" not in o.atoms[0].attrib:
            return False
        o.atoms[0].attrib["t"][1].append(7)
        o.atoms[0].attrib["t"][1][1]["d"] = 2
    elif name == "bond attrib in tuple":
        if not hasattr(o, "bonds") or not o.bonds or "bt" not in o.bonds[0].attrib:
            return False
        o.bonds[0].attrib["bt"][0].append(7)
    elif name == "mol attrib in tuple":
        if "tup" not in o.attrib:
            return False
        o.attrib["tup"][1].append(7)
    elif name == "atom label":
        o.atoms[0].label = "CHANGED"
    elif name == "atom attrib entry":
        o.atoms[0].attrib["x"] = "changed"
    elif name == "atom attrib nested":
        if "l" not in o.atoms[0].attrib:
            return False
        o.atoms[0].attrib["l"].append(99)
    elif name == "atom element":
        o.atoms[1].element = Element.S
    elif name == "bond type":
        if not hasattr(o, "bonds") or not o.bonds:
            return False
        o.bonds[0].btype = 3
    elif name == "bond attrib entry":
        if not hasattr(o, "bonds") or not o.bonds:
            return False
        o.bonds[0].attrib["bo"] = "changed"
    elif name == "key into an empty bond attrib":
        if not hasattr(o, "bonds") or len(o.bonds) < 2 or o.bonds[1].attrib:
            return False
        o.bonds[1].attrib["new"] = 1
    elif name == "key into an empty atom attrib":
        if len(o.atoms) < 2 or o.atoms[1].attrib:
            return False
        o.atoms[1].attrib["new"] = 1
    elif name == "coord cell":
        if not hasattr(o, "coords"):
            return False
        c = o.coords
        c[(0,) * c.ndim] = 42.0
    elif name == "charge cell":
        if not hasattr(o, "atomic_charges"):
            return False
        q = o.atomic_charges
        q[(0,) * q.ndim] = 42.0
    elif name == "mol attrib entry":
        o.attrib["k"] = "changed"
    elif name == "mol attrib nested":
        if "lst" not in o.attrib:
            return False
        o.attrib["lst"][1].append(99)
    elif name == "add atom":
        if isinstance(o, ConformerEnsemble) or not hasattr(o, "add_atom"):
            return False
        o.add_atom(Atom("F"), [9.0, 9.0, 9.0])
    elif name == "del atom":
        if isinstance(o, ConformerEnsemble):
            return False
        o.del_atom(o.atoms[2])
    elif name == "add hydrogens":
        if isinstance(o, ConformerEnsemble) or not hasattr(o, "add_implicit_hydrogens"):
            return False
        o.add_implicit_hydrogens()
    elif name == "mol charge":
        o.charge = 7
        o.mult = 5
        o.name = "renamed"
    return True


def h_copy(route: int, mut: int, mutate_copy: bool, charge: int, mult: int, label: Optional[str], aval: int, qsel: int) -> bool:
    """
    pre: 0 <= route < len(ROUTES) and 0 <= mut < len(MUTS) and -3 <= charge <= 3 and 1 <= mult <= 4
    pre: (label is None or len(label) <= 1) and -5 <= aval <= 5 and 0 <= qsel <= 2
    pre: SPLIT < 0 or route == SPLIT
    post: _
    """
    return _copy(route, mut, mutate_copy, charge, mult, label, aval, qsel)


def _copy(route, mut, mutate_copy, charge, mult, label, aval, qsel):
    # (no contract on the shared body: CrossHair would enforce it again at every call from another harness function)
    r = ROUTES[route]
    if r in C_ROUTES:
        charge, mult, label, aval = -2, 3, "L", 4        # pickle/deepcopy are C code: only the selectors stay symbolic
    is_ens = r in ("ConformerEnsemble(e)", "ens pickle", "ens deepcopy", "Molecule(e[i])")
    src = mk_ens(charge, mult, label, aval, qsel) if is_ens else mk_mol(charge, mult, label, aval, qsel)
    before = snap(src)
    keys = None            # fields in which the copy must equal the source (None = all the copy's class has)
    part = None
    if r == "Molecule(m)":
        cp = Molecule(src)
    elif r == "Structure(m)":
        cp = Structure(src)
    elif r == "CartesianGeometry(m)":
        cp = CartesianGeometry(src)
    elif r == "Connectivity(m)":
        cp = Connectivity(src)
    elif r == "Promolecule(m)":
        cp = Promolecule(src)
    elif r in ("pickle", "ens pickle"):
        cp = pickle.loads(pickle.dumps(src))
    elif r in ("deepcopy", "ens deepcopy"):
        cp = copy.deepcopy(src)
    elif r == "concatenate":
        other = mk_mol(0, 1, "z", 0, 2)
        cp = Molecule.concatenate(src, other)
        part = 3
    elif r == "Atom.evolve":
        a = src.atoms[0].evolve()
        if snap(src)["atoms"][0] != (int(a.element), a.isotope, a.label, int(a.atype), int(a.stereo), int(a.geom), a.formal_charge, a.formal_spin, deep(a.attrib)):
            return False
        a.attrib["x"] = "changed"
        a.attrib["l"].append(5)
        a.attrib["t"][1].append(5)
        a.label = "q"
        return snap(src) == before
    elif r == "Bond.evolve":
        b = src.bonds[0].evolve()
        if (b.label, b.btype, b.stereo, b.f_order, deep(b.attrib)) != (src.bonds[0].label, src.bonds[0].btype, src.bonds[0].stereo, src.bonds[0].f_order, deep(src.bonds[0].attrib)):
            return False
        b.attrib["bo"] = "changed"
        b.attrib["bt"][0].append(5)
        b.btype = 3
        return snap(src) == before
    elif r == "ConformerEnsemble(m)":
        cp = ConformerEnsemble(src)
        keys = ["name", "charge", "mult", "attrib", "atoms", "bonds"]
    elif r == "ConformerEnsemble(e)":
        cp = ConformerEnsemble(src)
    elif r == "Molecule(e[i])":
        cp = Molecule(src[1])
        s = snap(cp)
        if s["coords"] != before["coords"][1] or s["q"] != before["q"][1]:
            return False
        keys = ["name", "charge", "mult", "attrib", "atoms", "bonds"]
    # faithful
    s = snap(cp)
    if part is not None:
        if s["atoms"][:part] != before["atoms"] or s["bonds"][:2] != before["bonds"] or s["coords"][:part] != before["coords"] or s["q"][:part] != before["q"]:
            return False
    else:
        ks = keys if keys is not None else list(s.keys())
        if sub(s, ks) != sub(before, ks):
            return False
    if not wired(cp) or not wired(src):
        return False
    if snap(src) != before:
        return False
    # independent
    a, b = (cp, src) if mutate_copy else (src, cp)
    other_before = snap(b)
    if not mutate(a, mut):
        return True
    return snap(b) == other_before and wired(b)


def h_copy_quick(route: int, mut: int, mutate_copy: bool, charge: int, mult: int, aval: int) -> bool:
    """
    quick tier: as h_copy with the label and the partial-charge row concrete (sum instead of product of branchings)
    pre: 0 <= route < len(ROUTES) and 0 <= mut < len(MUTS) and -3 <= charge <= 3 and 1 <= mult <= 4 and -5 <= aval <= 5
    pre: SPLIT < 0 or route == SPLIT
    post: _
    """
    return _copy(route, mut, mutate_copy, charge, mult, "L", aval, 0)


def h_copy_labels(route: int, label: Optional[str], qsel: int) -> bool:
    """
    quick tier: label None-ness / emptiness and the partial-charge rows (incl. all-zero), one mutation
    pre: 0 <= route < len(ROUTES) and (label is None or len(label) <= 1) and 0 <= qsel <= 2
    post: _
    """
    return _copy(route, 1, True, 1, 2, label, 3, qsel)


ENCODED = ["molli.chem.atom.Atom.evolve", "molli.chem.bond.Bond.evolve", "molli.chem.atom.Atom.__getstate__", "molli.chem.atom.Atom.__setstate__",
           "molli.chem.bond.Bond.__getstate__", "molli.chem.bond.Bond.__setstate__", "molli.chem.atom.Promolecule.__init__", "molli.chem.atom.Promolecule.__getstate__",
           "molli.chem.atom.Promolecule.__setstate__", "molli.chem.bond.Connectivity.__init__", "molli.chem.geometry.CartesianGeometry.__init__",
           "molli.chem.structure.Structure.__init__", "molli.chem.molecule.Molecule.__init__", "molli.chem.ensemble.ConformerEnsemble.__init__",
           "molli.chem.structure.Structure.concatenate", "molli.chem.ensemble.ConformerEnsemble.__getitem__"]


def run(rep, tier):
    from engine import xh
    rep.encoded = ENCODED
    rep.bounds = {"sources": "3-atom/2-bond Molecule, 2-conformer ensemble of it", "symbolic": "charge [-3,3], mult [1,4], label Optional[str<=1], attribute value [-5,5], partial-charge row selector; copy route (15) and mutation (14) selectors; which side is mutated",
                  "routes": ROUTES, "mutations": MUTS, "pickle/deepcopy": "run on concrete field values (C code); only selectors symbolic"}
    rep.outside = ["shallow copy.copy (shares by definition)", "join (C12 checks that A and B are untouched)", "more than one mutation after the copy", "Conformer / Substructure as copy sources other than Molecule(ens[i])"]
    rep.assumptions = ["observable fields = name, charge, mult, attrib (deep), per-atom and per-bond fields incl. attrib, coords, partial charges, weights, parent, idx"]
    if tier == "quick":
        specs = [{"fn": "h_copy_quick", "timeout": 600, "split": r} for r in range(len(ROUTES))] + [{"fn": "h_copy_labels", "timeout": 600}]
    else:
        specs = [{"fn": "h_copy", "timeout": 2400, "split": r} for r in range(len(ROUTES))]
    xh.run_obligations(rep, "harness.C06", specs)
    xh.known_witness(rep, "harness.C06")
