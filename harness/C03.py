"""C03 — a crash while appending never damages committed records or shows a torn one (XH)."""
import os
from harness.storage_env import *   # noqa

HAS_REAL = True
SPLIT = int(os.environ.get("XH_SPLIT", "-1"))
MAXV = int(os.environ.get("XH_MAXV", "2"))
# (prior committed records, puts in the crashed session) cells; the split index picks one
CELLS = [(0, 1), (1, 1), (0, 2), (1, 2)]


def crash_image(pre: bytes, log, cut: int) -> bytes:
    """pre-image with the recorded writes applied, in program order, up to `cut` bytes in total (cut is concrete here)"""
    img = pre
    left = cut
    for off, data in log:
        if data is None:                      # truncate(off): atomic metadata change, costs no bytes
            img = img[:off] if off <= len(img) else img + b"\0" * (off - len(img))
            continue
        if left <= 0:
            break
        part = data[:left] if left < len(data) else data
        left -= len(part)
        if off > len(img):
            img = img + b"\0" * (off - len(img))
        img = img[:off] + part + img[off + len(part):]
    return img


def _listed_ok(f, committed, session):
    """committed records exact; every other listed key is a session key with exactly its value (complete or absent)"""
    keys = list(f.keys())
    for k, v in committed:
        if not any(k == x for x in keys):
            return False
        if f.get(k) != v:
            return False
    for x in keys:
        if any(x == k for k, _ in committed):
            continue
        hit = False
        for k, v in session:
            if x == k:
                hit = True
                if f.get(x) != v:
                    return False        # truncated / zero-padded value
        if not hit:
            return False                # partial or foreign key
    if len(keys) > len(committed) + len(session):
        return False
    return True


def _scenario(cell, cut, level, ks, vs, second_cut=-1):
    nprior, nput = CELLS[cell]
    prior = [(b"P", b"pv")][:nprior]
    session = list(zip(ks, vs))[:nput]
    for i in range(len(session)):
        for j in range(i):
            if session[i][0] == session[j][0]:
                return True                       # distinct keys within the session
        if session[i][0] == b"P" or session[i][0] == b"N" or session[i][0] == b"M":
            return True                       # keys reserved for the committed record and the recovery appends
    p = new_path()
    f = UKVFile(p, "w")
    for k, v in prior:
        f.put(k, v)
    f.close()
    pre = file_bytes(p)
    clear_writes()
    if level == 0:
        f = UKVFile(p, "a")
        for k, v in session:
            f.put(k, v)
        f.close()
    else:
        c = UkvCollectionBackend(p, readonly=False, bufsize=-1 if level == 1 else 64)
        with c.writing():
            for k, v in session:
                c._ukvfile.put(k, v) if False else c.put("s%d" % session.index((k, v)), v)
        session = [(("s%d" % i).encode(), v) for i, (_, v) in enumerate(session)]
    log = writes_log()
    total = sum(len(d) for _, d in log if d is not None)
    if not (0 <= cut <= total):
        return True
    img = None
    for c_ in range(total + 1):                    # fork on the crash offset: slicing needs a concrete cut
        if cut == c_:
            img = crash_image(pre, log, c_)
            break
    q = new_path()
    set_file_bytes(q, img)
    # recovery 1: reopen read-only
    r = UKVFile(q, "r")
    ok = _listed_ok(r, prior, session)
    seen = [(k, r.get(k)) for k in list(r.keys())]
    r.close()
    if not ok:
        return False
    # recovery 2: reopen for append, add a record, reopen read-only
    a = UKVFile(q, "a")
    if not _listed_ok(a, prior, session):
        return False
    clear_writes()
    pre2 = file_bytes(q)
    a.put(b"N", b"nv")
    a.close()
    if second_cut >= 0:                             # second crash, inside the recovery append
        log2 = writes_log()
        total2 = sum(len(d) for _, d in log2 if d is not None)
        if second_cut > total2:
            return True
        img2 = None
        for c_ in range(total2 + 1):
            if second_cut == c_:
                img2 = crash_image(pre2, log2, c_)
                break
        set_file_bytes(q, img2)
        r = UKVFile(q, "r")
        ok = _listed_ok(r, seen, [(b"N", b"nv")])
        r.close()
        a2 = UKVFile(q, "a")
        ok = ok and _listed_ok(a2, seen, [(b"N", b"nv")])
        if not any(b"N" == x for x in list(a2.keys())):
            a2.put(b"N", b"nv")
        a2.put(b"M", b"m")
        a2.close()
        r = UKVFile(q, "r")
        ok = ok and _listed_ok(r, seen + [(b"N", b"nv"), (b"M", b"m")], [])
        r.close()
        return ok
    r = UKVFile(q, "r")
    ok = _listed_ok(r, seen + [(b"N", b"nv")], []) and len(list(r.keys())) == len(seen) + 1
    r.close()
    return ok


def h_crash(cell: int, cut: int, nk1: int, nk2: int, nv1: int, nv2: int, a1: int, b1: int, a2: int, b2: int,
            x1: int, y1: int, z1: int, x2: int, y2: int, z2: int) -> bool:
    """
    Crash at byte `cut` of a UKVFile append session, then reopen r / reopen a + put / reopen r.
    pre: 0 <= cell < len(CELLS) and 0 <= cut <= 24 and (SPLIT < 0 or (cell == SPLIT % 4 and cut % 4 == SPLIT // 4))
    pre: 1 <= nk1 <= 2 and 1 <= nk2 <= 2 and 0 <= nv1 <= MAXV and 0 <= nv2 <= MAXV
    pre: isbyte(a1, b1, a2, b2, x1, y1, z1, x2, y2, z2)
    post: _
    """
    ks = [mkb(nk1, a1, b1)] + ([mkb(nk2, a2, b2)] if CELLS[cell][1] > 1 else [])
    vs = [mkb(nv1, x1, y1, z1)] + ([mkb(nv2, x2, y2, z2)] if CELLS[cell][1] > 1 else [])
    return _scenario(cell, cut, 0, ks, vs)


def h_crash_collection(cell: int, cut: int, level: int, nv1: int, nv2: int, x1: int, y1: int, x2: int, y2: int) -> bool:
    """
    The same through a collection backend writing() session (immediate flush and buffered), string keys concrete.
    pre: 0 <= cell < len(CELLS) and 1 <= level <= 2 and 0 <= cut <= 24 and (SPLIT < 0 or (cell == SPLIT % 4 and level == 1 + SPLIT // 4))
    pre: 0 <= nv1 <= 2 and 0 <= nv2 <= 2 and isbyte(x1, y1, x2, y2)
    post: _
    """
    return _scenario(cell, cut, level, [b"s0", b"s1"], [mkb(nv1, x1, y1), mkb(nv2, x2, y2)])


def h_crash_twice(cut: int, cut2: int, nk1: int, nv1: int, a1: int, b1: int, x1: int, y1: int, z1: int) -> bool:
    """
    Second crash inside the recovery append (one prior record, one torn record, then a crash while appending b"N").
    pre: 0 <= cut <= 12 and 0 <= cut2 <= 8 and 1 <= nk1 <= 2 and 0 <= nv1 <= 3 and isbyte(a1, b1, x1, y1, z1)
    pre: SPLIT < 0 or cut == SPLIT
    post: _
    """
    return _scenario(1, cut, 0, [mkb(nk1, a1, b1)], [mkb(nv1, x1, y1, z1)], second_cut=cut2)


ENCODED = ["molli.storage.ukvfile.UKVFile.open", "molli.storage.ukvfile.UKVFile.map_blocks", "molli.storage.ukvfile.UKVFile.put",
           "molli.storage.ukvfile.UKVFile.get", "molli.storage.ukvfile.UKVFile.read_header", "molli.storage.ukvfile.UKVFile._unpack_read",
           "molli.storage.ukvfile.UKVFile.close", "molli.storage.backends.CollectionBackendBase.writing",
           "molli.storage.backends.CollectionBackendBase.put", "molli.storage.backends.CollectionBackendBase.flush",
           "molli.storage.backends.UkvCollectionBackend._write", "molli.storage.backends.UkvCollectionBackend.begin_write"]


def run(rep, tier):
    from engine import xh
    rep.encoded = ENCODED
    rep.models_validated = E.validate_storage_models()
    q = tier == "quick"
    rep.bounds = {"crash offset": "symbolic, every byte of the session's write stream (forked per offset)", "session": "1..2 puts",
                  "prior committed records": "0..1", "keys": "1..2 symbolic bytes", "values": f"0..{2 if q else 3} symbolic bytes",
                  "recovery": "reopen r; reopen a + put + reopen r; second crash inside the recovery append (every offset of both)"}
    rep.outside = ["OS-level reordering of buffered writes (bytes are assumed to reach the disk in program order)", "records larger than the bound",
                   "a crash while the file header itself is first written (not an append session)"]
    rep.assumptions = ["file/struct/dict models as in C02 (validated on this run); crash image = pre-image + recorded writes applied at their own offsets up to the crash byte"]
    specs = [{"fn": "h_crash", "timeout": 300 if q else 1200, "split": c, "env": {"XH_MAXV": "2" if q else "3"}} for c in range(16)]
    specs += [{"fn": "h_crash_collection", "timeout": 300, "split": c} for c in range(8)]
    specs += [{"fn": "h_crash_twice", "timeout": 300, "split": c} for c in (range(0, 13, 3) if q else range(13))]
    xh.run_obligations(rep, "harness.C03", specs)
    xh.known_witness(rep, "harness.C03")
