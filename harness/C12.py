"""C12 — joining fragments at attachment points builds exactly the intended molecule (XH constitution/charges/combine + SR geometry)."""
import os, sys, types, math, json
from typing import Optional
import numpy as np
import z3
import molli.math.rotation as ROT
import molli.math.distance as DIST
import molli.chem.structure as STR
from molli.chem import Atom, AtomType, Bond, BondType, Element, Molecule, Structure
from harness.C06 import snap, wired, deep

SPLIT = int(os.environ.get("XH_SPLIT", "-1"))
QUICK = os.environ.get("XH_QUICK") == "1"


def pick(sel, n):
    for i in range(n):
        if sel == i:
            return i
    return 0


# --------------------------------------------------------------------------------------------------------------- fragments (concrete menus)
# each kind: (elements, bonds, coordinates in general position); the attachment point is appended and bonded to a selector-chosen host
KINDS = [
    (["C", "H"], [(0, 1, 1)], [[0.0, 0.0, 0.0], [0.3, 1.0, -0.2]]),                                                        # 2-atom chain
    (["C", "O", "H"], [(0, 1, 2), (0, 2, 1)], [[0.1, 0.0, 0.0], [1.2, 0.3, 0.1], [-0.5, 0.9, 0.2]]),                        # branched tree
    (["C", "N", "C"], [(0, 1, 1), (1, 2, 1), (2, 0, 1)], [[0.0, 0.0, 0.1], [1.4, 0.1, 0.0], [0.7, 1.2, -0.1]]),            # 3-ring
    (["C", "C", "O", "H"], [(0, 1, 1), (1, 2, 1), (1, 3, 1)], [[0.0, 0.2, 0.0], [1.5, 0.0, 0.1], [2.1, 1.2, 0.4], [2.0, -0.8, -0.7]]),  # 4 atoms, chiral pose
    (["C", "O", "H"], [(0, 1, 1), (0, 1, 2), (1, 2, 1)], [[0.0, 0.1, 0.0], [1.3, 0.2, 0.1], [1.9, 1.0, -0.3]]),           # two parallel bonds between one pair of atoms
]
APDIR = [[-0.8, -0.5, 0.6], [0.2, -0.9, -0.7], [0.5, 0.4, 1.1], [-0.3, 0.2, -1.0]]


def frag(cls, kind, host, q, m, tag, shift=0.0, ap_first=False, parallel_to=None):
    els, bonds, xyz = KINDS[kind]
    n = len(els)
    host = host % n
    atoms = [Atom(e, label=f"{tag}{i}", isotope=(13 if i == 0 else None), formal_charge=(i == 1) * 1, attrib={"t": [tag, i]}) for i, e in enumerate(els)]
    ap = Atom(Element.Unknown, atype=AtomType.AttachmentPoint, label=f"{tag}*")
    d = np.array(APDIR[host] if parallel_to is None else parallel_to, dtype=float)
    xyz = [list(np.array(x) + shift) for x in xyz]
    apx = list(np.array(xyz[host]) + d)
    if ap_first:
        atoms, xyz = [ap] + atoms, [apx] + xyz
        off, api = 1, 0
    else:
        atoms, xyz = atoms + [ap], xyz + [apx]
        off, api = 0, n
    kw = dict(name=f"frag{tag}", charge=q, mult=m, coords=np.array(xyz, dtype=float))
    if cls is Molecule:
        kw["atomic_charges"] = [0.125 * (i + 1) * (1 if tag == "a" else -1) for i in range(n + 1)]
    s = cls(atoms, **kw)
    seen = []
    for a, b, t in bonds:
        if (a, b) in seen:
            # a second bond between the same two atoms is put into the bond table directly (as a copy constructor or a reader would), so that the
            # fragment has it whatever append_bond thinks of parallel bonds
            bd = Bond(s.atoms[a + off], s.atoms[b + off], btype=t, label=f"{tag}{a}{b}", attrib={"bo": [tag]})
            bd.parent = s
            s._bonds.append(bd)
        else:
            s.connect(a + off, b + off, btype=t, label=f"{tag}{a}{b}", attrib={"bo": [tag]})
        seen.append((a, b))
    s.connect(host + off, api, label=f"{tag}ap")
    return s, api, host + off


def akey(a):
    return (int(a.element), a.isotope, a.label, int(a.atype), int(a.stereo), int(a.geom), a.formal_charge, a.formal_spin, deep(a.attrib))


def bkey(b):
    return (tuple(sorted((b.a1.label, b.a2.label))), b.label, int(b.btype), int(b.stereo), float(b.f_order), deep(b.attrib))


def same_multiset(xs, ys):
    """multiset equality by ==, no hashing / ordering / repr (repr of containers is short-circuited to a symbolic string by CrossHair)"""
    ys = list(ys)
    for x in xs:
        for k in range(len(ys)):
            if ys[k] == x:
                del ys[k]
                break
        else:
            return False
    return not ys


def _dist(c, i, j):
    return float(np.linalg.norm(np.asarray(c[i], dtype=float) - np.asarray(c[j], dtype=float)))


def _vol(c, i, j, k, l):
    c = np.asarray(c, dtype=float)
    return float(np.dot(c[j] - c[i], np.cross(c[k] - c[i], c[l] - c[i])))


def check_join(cls, A, apA, hostA, B, apB, hostB, R, dist, btype, q_exp, m_exp, snapA, snapB):
    """the oracle: everything the property states about one join, evaluated on concrete coordinates"""
    nA, nB = A.n_atoms, B.n_atoms
    if type(R) is not cls or R.n_atoms != nA + nB - 2:
        return "atom count / class"
    keepA = [i for i in range(nA) if i != apA]
    keepB = [i for i in range(nB) if i != apB]
    want_atoms = [akey(A.atoms[i]) for i in keepA] + [akey(B.atoms[i]) for i in keepB]
    if not same_multiset([akey(a) for a in R.atoms], want_atoms):
        return "atom multiset"
    if any(any(a is x for x in A.atoms) or any(a is x for x in B.atoms) for a in R.atoms):
        return "result shares atom objects with its sources"
    want_bonds = [bkey(b) for b in A.bonds if A.atoms[apA] not in b] + [bkey(b) for b in B.bonds if B.atoms[apB] not in b]
    new = (tuple(sorted((A.atoms[hostA].label, B.atoms[hostB].label))), None, int(btype), 0, 1.0, {})
    if not same_multiset([bkey(b) for b in R.bonds], want_bonds + [new]):
        return "bond multiset"
    if not wired(R):
        return "parent / index wiring"
    if R.charge != q_exp or R.mult != m_exp:
        return "charge / multiplicity rule"
    if snap(A) != snapA or snap(B) != snapB:
        return "a source fragment was modified"
    # geometry on the concrete pose: row of each source atom in the product found by label
    row = {a.label: i for i, a in enumerate(R.atoms)}
    c = np.asarray(R.coords, dtype=float)
    if c.shape != (nA + nB - 2, 3) or not np.all(np.isfinite(c)):
        return "coordinate shape / finiteness"
    for src, keep in ((A, keepA), (B, keepB)):
        sc = np.asarray(src.coords, dtype=float)
        idx = [row[src.atoms[i].label] for i in keep]
        for x in range(len(keep)):
            for y in range(x + 1, len(keep)):
                if abs(_dist(sc, keep[x], keep[y]) - _dist(c, idx[x], idx[y])) > 1e-6:
                    return "a fragment was deformed"
        if len(keep) >= 4:
            if abs(_vol(sc, *keep[:4]) - _vol(c, *idx[:4])) > 1e-6:
                return "a fragment was mirrored"
    ia, ib = row[A.atoms[hostA].label], row[B.atoms[hostB].label]
    nb = c[ib] - c[ia]
    v1 = np.asarray(A.coords[apA] - A.coords[hostA], dtype=float)
    L = float(np.linalg.norm(nb))
    if dist is not None and abs(L - dist) > 1e-6:
        return f"bond length {L} vs requested {dist}"
    if not (L > 0.3) or float(np.linalg.norm(np.cross(nb, v1))) > 1e-6 * L * float(np.linalg.norm(v1)) or float(nb @ v1) <= 0:
        return "new bond does not point along A's attachment direction"
    if cls is Molecule:
        want_q = [float(A.atomic_charges[i]) for i in keepA] + [float(B.atomic_charges[i]) for i in keepB]
        got_q = {a.label: float(R.atomic_charges[i]) for i, a in enumerate(R.atoms)}
        lab = [A.atoms[i].label for i in keepA] + [B.atoms[i].label for i in keepB]
        if any(abs(got_q[l] - w) > 1e-9 for l, w in zip(lab, want_q)):
            return "partial charges not carried over"
    return True


DISTS = [None, 1.0, 2.5]
BTYPES = [BondType.Single, BondType.Double, BondType.Aromatic]


def h_join_charge(qa: int, qb: int, ma: int, mb: int, q: Optional[int], m: Optional[int], cls_sel: int) -> bool:
    """
    charge / multiplicity rule with symbolic values and overrides, including 0 and None
    pre: -3 <= qa <= 3 and -3 <= qb <= 3 and 1 <= ma <= 4 and 1 <= mb <= 4 and 0 <= cls_sel <= 1
    pre: q is None or -3 <= q <= 3
    pre: m is None or 1 <= m <= 4
    post: _
    """
    cls = [Molecule, Structure][pick(cls_sel, 2)]
    A, apA, hA = frag(cls, 1, 0, qa, ma, "a")
    B, apB, hB = frag(cls, 0, 1, qb, mb, "b", shift=5.0)
    sA, sB = snap(A), snap(B)
    R = cls.join(A, B, apA, apB, charge=q, mult=m)
    eq = qa + qb if q is None else q
    em = ma + mb - 1 if m is None else m
    return check_join(cls, A, apA, hA, B, apB, hB, R, None, BondType.Single, eq, em, sA, sB) is True


def h_join_build(ka: int, ha: int, kb: int, hb: int, dsel: int, bsel: int, opt: int, cls_sel: int, by_obj: int, first: int) -> bool:
    """
    constitution, source integrity, wiring, rigid placement on the concrete pose: every fragment kind x attachment host x options
    pre: 0 <= ka < len(KINDS) and 0 <= kb < len(KINDS) and 0 <= ha <= 3 and 0 <= hb <= 3
    pre: 0 <= dsel < len(DISTS) and 0 <= bsel < len(BTYPES) and 0 <= opt <= 1 and 0 <= cls_sel <= 1 and 0 <= by_obj <= 1 and 0 <= first <= 1
    pre: SPLIT < 0 or ka * len(KINDS) + kb == SPLIT
    post: _
    """
    return _build(pick(ka, len(KINDS)), pick(ha, 4), pick(kb, len(KINDS)), pick(hb, 4), pick(dsel, len(DISTS)), pick(bsel, len(BTYPES)), pick(opt, 2), pick(cls_sel, 2), pick(by_obj, 2), pick(first, 2))


def h_join_build_q(ka: int, ha: int, kb: int, hb: int, cfg: int) -> bool:
    """
    quick-tier cut of h_join_build: all fragment kinds and hosts, option vectors from a pairwise-covering menu
    pre: 0 <= ka < len(KINDS) and 0 <= kb < len(KINDS) and 0 <= ha <= 3 and 0 <= hb <= 3 and 0 <= cfg < len(CFG)
    pre: SPLIT < 0 or ka * len(KINDS) + kb == SPLIT
    pre: not QUICK or (ha + hb) % 3 == 0
    post: _
    """
    c = CFG[pick(cfg, len(CFG))]
    return _build(pick(ka, len(KINDS)), pick(ha, 4), pick(kb, len(KINDS)), pick(hb, 4), *c)


# (dist, btype, optimize, class, by object, attachment point first)
CFG = [(0, 0, 0, 0, 0, 0), (1, 1, 1, 0, 1, 1), (2, 2, 0, 1, 1, 0), (1, 0, 1, 1, 0, 1), (2, 1, 0, 0, 0, 1), (0, 2, 1, 1, 1, 1)]
if not QUICK:
    CFG = CFG + [(0, 1, 1, 1, 0, 0), (1, 2, 0, 0, 1, 0), (2, 0, 1, 0, 1, 1), (0, 0, 1, 0, 1, 0), (1, 1, 0, 1, 1, 0), (2, 2, 1, 1, 0, 1)]


def _build(ka, ha, kb, hb, dsel, bsel, opt, cls_sel, by_obj, first):
    cls = [Molecule, Structure][cls_sel]
    A, apA, hA = frag(cls, ka, ha, -1, 2, "a", ap_first=bool(first))
    B, apB, hB = frag(cls, kb, hb, 2, 1, "b", shift=4.0, ap_first=not first)
    sA, sB = snap(A), snap(B)
    dist, bt = DISTS[dsel], BTYPES[bsel]
    a1, a2 = (A.atoms[apA], B.atoms[apB]) if by_obj else (apA, apB)
    R = cls.join(A, B, a1, a2, dist=dist, btype=bt, optimize_rotation=bool(opt))
    r = check_join(cls, A, apA, hA, B, apB, hB, R, dist, bt, 1, 2, sA, sB)
    return r is True


def h_join_parallel(ka: int, ha: int, kb: int, hb: int, par: int, opt: int, scale: int) -> bool:
    """
    attachment vectors exactly parallel / antiparallel (both branches of the vector-to-vector rotation), product independent of the RNG state
    pre: 0 <= ka < len(KINDS) and 0 <= kb < len(KINDS) and 0 <= ha <= 3 and 0 <= hb <= 3 and 0 <= par <= 1 and 0 <= opt <= 1 and 0 <= scale <= 2
    pre: SPLIT < 0 or ka * len(KINDS) + kb == SPLIT
    pre: not QUICK or (ha <= 1 and hb <= 0 and scale <= 1)
    post: _
    """
    ka, ha, kb, hb, par, opt = pick(ka, len(KINDS)), pick(ha, 4), pick(kb, len(KINDS)), pick(hb, 4), pick(par, 2), pick(opt, 2)
    sc = [1.0, 0.5, 3.0][pick(scale, 3)]
    A, apA, hA = frag(Molecule, ka, ha, 0, 1, "a")
    va = A.coords[apA] - A.coords[hA]
    B, apB, hB = frag(Molecule, kb, hb, 0, 1, "b", shift=3.0, parallel_to=list(va * sc * (1 if par else -1)))
    sA, sB = snap(A), snap(B)
    out = []
    for seed in (1, 2):
        np.random.seed(seed)
        R = Molecule.join(A, B, apA, apB, dist=1.5, optimize_rotation=bool(opt))
        if check_join(Molecule, A, apA, hA, B, apB, hB, R, 1.5, BondType.Single, 0, 1, sA, sB) is not True:
            return False
        out.append(np.asarray(R.coords, dtype=float))
    return bool(np.max(np.abs(out[0] - out[1])) < 1e-9)


# ---------------------------------------------------------------------------------------------------------------- molli combine (iterated)
def _combine_mod():
    if "molli.external.openbabel" not in sys.modules:          # openbabel is not installed; combine only uses it when --obopt is given
        try:
            import molli.external.openbabel  # noqa
        except ImportError:
            sys.modules["molli.external.openbabel"] = types.ModuleType("molli.external.openbabel")
            import molli.external
            molli.external.openbabel = sys.modules["molli.external.openbabel"]
    import molli.scripts.combine as CMB
    return CMB


PERMS3 = [(0, 1, 2), (0, 2, 1), (1, 0, 2), (1, 2, 0), (2, 0, 1), (2, 1, 0), (0, 1), (1, 0), (0, 2), (2, 0), (1, 2), (2, 1), (0,), (1,), (2,)]
LAYOUTS = [[("N", None), ("*", 0), ("C", None), ("*", 2), ("O", None), ("*", 4)],           # interleaved: aps at 1, 3, 5
           [("*", 3), ("*", 4), ("*", 5), ("N", None), ("C", None), ("O", None)],           # aps first
           [("N", None), ("C", None), ("O", None), ("*", 2), ("*", 0), ("*", 1)]]           # aps last, crossed


def h_combine(perm: int, layout: int, hadd: int) -> bool:
    """
    the real _ml_assemble body (iterated join, index shift after each consumed attachment point): the i-th substituent ends up bonded to
    the former neighbour of the i-th requested attachment point, for every order of the requested points
    pre: 0 <= perm < len(PERMS3) and 0 <= layout < len(LAYOUTS) and 0 <= hadd <= 1
    post: _
    """
    CMB = _combine_mod()
    order = PERMS3[pick(perm, len(PERMS3))]
    lay = LAYOUTS[pick(layout, len(LAYOUTS))]
    hadd = bool(pick(hadd, 2))
    atoms, xyz = [], []
    base = {"N": [0.0, 0.0, 0.0], "C": [1.4, 0.2, 0.0], "O": [2.6, -0.4, 0.5]}
    for i, (e, host) in enumerate(lay):
        atoms.append(Atom(Element.Unknown, atype=AtomType.AttachmentPoint, label=f"ap{i}") if e == "*" else Atom(e, label=e))
    for i, (e, host) in enumerate(lay):
        xyz.append(base[e] if e != "*" else list(np.array(base[lay[host][0]]) + np.array(APDIR[i % 4]) * 0.9))
    core = Molecule(atoms, name="core", coords=np.array(xyz, dtype=float))
    heavy = {e: i for i, (e, _) in enumerate(lay) if e != "*"}
    core.connect(heavy["N"], heavy["C"])
    core.connect(heavy["C"], heavy["O"])
    aps = [i for i, (e, _) in enumerate(lay) if e == "*"]
    for i in aps:
        core.connect(lay[i][1], i)
    subs = []
    for j, hal in enumerate(["F", "Cl", "Br"]):
        s = Molecule([Atom(Element.Unknown, atype=AtomType.AttachmentPoint, label="*"), Atom(hal, label=hal)], name=hal, coords=np.array([[0.0, 0.0, 0.0], [0.4, 1.1 + j, 0.3]]))
        s.connect(0, 1)
        subs.append(s)
    core_aps = tuple(aps[k] for k in order)
    combo = tuple(subs[k] for k in range(len(order)))
    fn, args, kwargs = CMB._ml_assemble(core, core_aps, [combo], hadd=hadd)
    res = fn(*args, **kwargs)
    if len(res) != 1:
        return False
    (name, deriv), = res.items()
    if name != "_".join(["core"] + [s.name for s in combo]) or deriv.name != name:
        return False
    for k, s in zip(order, combo):
        want_host = lay[lay[aps[k]][1]][0]       # heavy atom the k-th attachment point sat on
        hal = next((a for a in deriv.atoms if a.label == s.name), None)
        if hal is None:
            return False
        nbrs = [a.label for a in deriv.connected_atoms(hal)]
        if nbrs != [want_host]:
            return False
    left = [a for a in deriv.atoms if a.atype == AtomType.AttachmentPoint]
    if len(left) != 3 - len(order):
        return False
    heavy_n = sum(1 for a in deriv.atoms if a.element != Element.H)
    return heavy_n == 3 + len(order) + len(left) and (hadd or deriv.n_atoms == heavy_n)


# ------------------------------------------------------------------------------------------------------------------------ SR: geometry
from fractions import Fraction
from engine import sr
from engine.sr import CTX, SR, vec, mat, sym_angle, det3, E

ORIG_RMFV = ROT.rotation_matrix_from_vectors
ORIG_AXIS = ROT.rotation_matrix_from_axis
ORIG_OPT = DIST._optimize_rotation
UNITS = [(Fraction(1), Fraction(0), Fraction(0)), (Fraction(0), Fraction(0), Fraction(-1)), (Fraction(1, 3), Fraction(2, 3), Fraction(-2, 3)), (Fraction(2, 7), Fraction(-3, 7), Fraction(6, 7))]   # rational unit vectors


class SymStructure(Structure, coords_dtype=object):
    pass


def sfrag(tag, n, apvec=None):
    """n real atoms (branched) + attachment point (last) on atom 0, all coordinates symbolic; apvec pins the attachment vector"""
    rows = [[SR(z3.Real(f"{tag}{i}_{k}")) for k in range(3)] for i in range(n)]
    if apvec is None:
        rows.append([SR(z3.Real(f"{tag}ap_{k}")) for k in range(3)])
    else:
        rows.append([rows[0][k] + apvec[k] for k in range(3)])
    s = SymStructure([Atom("C") for _ in range(n)] + [Atom(Element.Unknown, atype=AtomType.AttachmentPoint)], coords=np.array(rows, dtype=object))
    for i in range(1, n):
        s.connect(0 if i < 3 else 1, i)
    s.connect(0, n)
    return s


CALLS = []
SEEN = {}


def rmfv_contract(u, v, tol=1e-8):
    """contract of rotation_matrix_from_vectors (discharged on the real function by C11): a proper rotation — stated by construction with
    molli's own axis-angle constructor — that maps u/|u| to v/|v|.  The same arguments give the same matrix (it is a function)."""
    u, v = np.array(u), np.array(v)
    key = "rmfv" + "|".join(z3.simplify(E(x)).sexpr() for x in list(u) + list(v))
    if key in CTX.memo:
        return CTX.memo[key]
    i = len([1 for k in CTX.memo if k.startswith("rmfv")])
    k = vec(f"rk{i}_")
    CTX.assume(E(k @ k) > 0)
    M = ORIG_AXIS(k, sym_angle(f"rphi{i}"))
    un, vn = u / np.linalg.norm(u), v / np.linalg.norm(v)
    img = un @ M
    for j in range(3):
        CTX.assume(E(img[j]) == E(vn[j]))
    CTX.memo[key] = M
    CALLS.append((u, v, M))
    return M


def optrot_contract(c1, c2, ax, resolution=12):
    """contract of _optimize_rotation: a rotation about the given axis by one of the scanned angles (here: by any angle)"""
    SEEN["c1"], SEEN["c2"], SEEN["ax"] = c1, c2, ax
    SEEN["M"] = ORIG_AXIS(ax, sym_angle("opt"))
    return SEEN["M"]


class NPX:
    """numpy whose RNG returns fresh reals: a product that depends on them depends on hidden state"""
    tag = "r"

    def __getattr__(self, n):
        return getattr(np, n)

    class random:
        @staticmethod
        def _fresh(n):
            k = len([1 for key in CTX.memo if key.startswith("rand" + NPX.tag)])
            CTX.memo[f"rand{NPX.tag}{k}"] = True
            v = vec(f"{NPX.tag}v{k}_", n)
            for x in v:
                CTX.assume(E(x) >= 0, E(x) < 1)
            return v

        @staticmethod
        def rand(*n):
            return NPX.random._fresh(n[0] if n else 1)

        @staticmethod
        def random(n=1):
            return NPX.random._fresh(n)

        @staticmethod
        def uniform(lo=0.0, hi=1.0, size=1):
            return lo + (hi - lo) * NPX.random._fresh(size)

        @staticmethod
        def normal(loc=0.0, scale=1.0, size=1):
            return NPX.random._fresh(size)


def d2(c, i, j):
    d = c[i] - c[j]
    return d @ d


def vol(c, i, j, k, l):
    return (c[j] - c[i]) @ np.cross(c[k] - c[i], c[l] - c[i])


def _shimmed(f):
    def g(*a, **k):
        saved = ROT.math
        ROT.math = sr.mathshim
        try:
            return f(*a, **k)
        finally:
            ROT.math = saved
    return g


def geometry_goals(c, n, a0, b0, v1, d, controls=True):
    nb = c[n] - c[0]
    goals = [("new bond length = requested", E(nb @ nb) != E(d * d))]
    cr = np.cross(nb, v1)
    goals += [(f"new bond parallel to A's attachment vector[{j}]", E(cr[j]) != 0) for j in range(3)]
    goals += [("new bond points along (not against) A's attachment vector", E(nb @ v1) <= 0)]
    pa = [(i, j) for i in range(n) for j in range(i + 1, n)]
    goals += [(f"A rigid: d{i}{j}", E(d2(c, i, j)) != E(d2(a0, i, j))) for i, j in pa]
    goals += [(f"B rigid: d{i}{j}", E(d2(c, n + i, n + j)) != E(d2(b0, i, j))) for i, j in pa]
    if n >= 4:
        goals += [("A not mirrored: signed volume", E(vol(c, 0, 1, 2, 3)) != E(vol(a0, 0, 1, 2, 3))),
                  ("B not mirrored: signed volume", E(vol(c, n, n + 1, n + 2, n + 3)) != E(vol(b0, 0, 1, 2, 3)))]
    if controls:
        goals += [("control: bond length = 2 * requested (must be sat)", E(nb @ nb) != E(4 * d * d))]
    return goals


def g_join(n):
    """the real Structure.join on two symbolic fragments with n real atoms each; rotation_matrix_from_vectors = its C11 contract"""
    @_shimmed
    def f():
        CALLS.clear()
        A, B = sfrag("a", n), sfrag("b", n)
        v1, v2 = A.coords[n] - A.coords[0], B.coords[n] - B.coords[0]
        CTX.assume(E(v1 @ v1) > 0, E(v2 @ v2) > 0)
        d = sr.sym("dist")
        CTX.assume(E(d) > 0)
        a0, b0 = A.coords.copy(), B.coords.copy()
        saved = STR.rotation_matrix_from_vectors
        STR.rotation_matrix_from_vectors = rmfv_contract
        try:
            R = SymStructure.join(A, B, n, n, dist=d)
        finally:
            STR.rotation_matrix_from_vectors = saved
        c = R.coords          # rows: a0..a(n-1), b0..b(n-1)
        if c.shape != (2 * n, 3):
            return [("product has 2n coordinate rows", z3.BoolVal(True))]
        goals = geometry_goals(c, n, a0, b0, v1, d)
        goals += [("the rotation requested maps B's attachment vector onto minus A's", z3.BoolVal(not (len(CALLS) == 1)))]
        goals += [(f"rotation source = v2[{j}]", E(CALLS[0][0][j]) != E(v2[j])) for j in range(3)] + [(f"rotation target = -v1[{j}]", E(CALLS[0][1][j]) != -E(v1[j])) for j in range(3)]
        return goals
    return f


def g_join_opt(n):
    """optimize_rotation=True: the scanned pose is the plain pose with fragment B turned about the new bond (assume/guarantee chain:
    plain pose satisfies the geometry goals [g_join]; B rows = plain B rows @ M; M rotates about A's attachment vector through the anchor;
    a rotation about an axis keeps distances, volume and the points of the axis [lemma below / C11])"""
    @_shimmed
    def f():
        CALLS.clear()
        SEEN.clear()
        A, B = sfrag("a", n), sfrag("b", n)
        v1, v2 = A.coords[n] - A.coords[0], B.coords[n] - B.coords[0]
        CTX.assume(E(v1 @ v1) > 0, E(v2 @ v2) > 0)
        d = sr.sym("dist")
        CTX.assume(E(d) > 0)
        a0, b0 = A.coords.copy(), B.coords.copy()
        saved = (STR.rotation_matrix_from_vectors, STR._optimize_rotation)
        STR.rotation_matrix_from_vectors, STR._optimize_rotation = rmfv_contract, optrot_contract
        try:
            plain = SymStructure.join(A, B, n, n, dist=d).coords
            c = SymStructure.join(A, B, n, n, dist=d, optimize_rotation=True).coords
        finally:
            STR.rotation_matrix_from_vectors, STR._optimize_rotation = saved
        if "M" not in SEEN:
            return [("optimize_rotation=True consults _optimize_rotation", z3.BoolVal(True))]
        M, ax, c2pre, c1pre = SEEN["M"], SEEN["ax"], SEEN["c2"], SEEN["c1"]
        goals = []
        goals += [(f"scan axis is A's attachment vector[{j}]", z3.Not(z3.Or(*[z3.And(*[E(ax[k]) == s * E(v1[k]) for k in range(3)]) for s in (1, -1)]))) for j in range(1)]
        goals += [(f"fragment A is not turned: row {i}[{k}]", E(c[i][k]) != E(plain[i][k])) for i in range(n) for k in range(3)]
        goals += [(f"scan starts from the plain pose: B row {i}[{k}]", E(c2pre[i][k]) != E(plain[n + i][k])) for i in range(n) for k in range(3)]
        goals += [(f"scan sees fragment A as placed: row {i}[{k}]", E(c1pre[i][k]) != E(plain[i][k])) for i in range(n) for k in range(3)]
        turned = c2pre @ M
        goals += [(f"B rows = plain B rows @ M: row {i}[{k}]", E(c[n + i][k]) != E(turned[i][k])) for i in range(n) for k in range(3)]
        # the anchor of B lies on the rotation axis through A's anchor, hence stays where the plain pose put it
        goals += [(f"B's anchor stays on the new bond[{k}]", E(c[n][k]) != E(plain[n][k])) for k in range(3)]
        nb = c[n] - c[0]
        goals += [("new bond length = requested", E(nb @ nb) != E(d * d))]
        goals += [(f"A rigid: d{i}{j}", E(d2(c, i, j)) != E(d2(a0, i, j))) for i in range(n) for j in range(i + 1, n)]
        return goals
    return f


def g_axis_lemma():
    """any points turned by molli's axis-angle rotation keep pairwise distances and signed volume; points on the axis stay"""
    @_shimmed
    def f():
        P = mat("P", 4, 3)
        ax = vec("ax")
        CTX.assume(E(ax @ ax) > 0)
        M = ORIG_AXIS(ax, sym_angle("opt"))
        Q = P @ M
        lam = sr.sym("lam")
        goals = [(f"distance {i}-{j} kept", E(d2(Q, i, j)) != E(d2(P, i, j))) for i in range(4) for j in range(i + 1, 4)]
        goals += [("signed volume kept", E(vol(Q, 0, 1, 2, 3)) != E(vol(P, 0, 1, 2, 3)))]
        goals += [(f"point on the axis fixed[{k}]", E(((lam * ax) @ M)[k]) != E(lam * ax[k])) for k in range(3)]
        return goals
    return f


def g_parallel(n, ui, sigma, hidden):
    """attachment vectors exactly parallel (sigma=+1: the rotation's antiparallel branch) or antiparallel (sigma=-1: identity rotation),
    along a rational unit direction with symbolic positive lengths; the REAL rotation_matrix_from_vectors runs (no contract), RNG = fresh reals"""
    @_shimmed
    def f():
        u = UNITS[ui]
        l1, l2 = sr.sym("len1"), sr.sym("len2")
        CTX.assume(E(l1) > 0, E(l2) > 0)
        A = sfrag("a", n, [l1 * u[k] for k in range(3)])
        B = sfrag("b", n, [sigma * l2 * u[k] for k in range(3)])
        v1 = A.coords[n] - A.coords[0]
        d = sr.sym("dist")
        CTX.assume(E(d) > 0)
        a0, b0 = A.coords.copy(), B.coords.copy()
        outs = []
        saved = (ROT.np, STR.np)
        try:
            for run in ("r", "s")[: 2 if hidden else 1]:
                NPX.tag = run
                ROT.np = STR.np = NPX()
                outs.append(SymStructure.join(A, B, n, n, dist=d).coords)
        finally:
            ROT.np, STR.np = saved
        c = outs[0]
        goals = geometry_goals(c, n, a0, b0, v1, d, controls=not hidden) if not hidden else []
        if hidden:
            goals += [(f"same product whatever the RNG returns: row {i}[{k}]", E(outs[0][i][k]) != E(outs[1][i][k])) for i in range(2 * n) for k in range(3)]
        return goals
    return f


def g_hidden_generic():
    """two executions of the real join + real rotation_matrix_from_vectors (generic branch, forced: the first branch decision `c <= -1 + tol`
    is taken False and becomes part of the path condition) that share every input and differ only in what the RNG returns: any coordinate
    that can differ is a dependence on hidden state"""
    @_shimmed
    def f():
        n = 2
        A, B = sfrag("a", n), sfrag("b", n)
        v1, v2 = A.coords[n] - A.coords[0], B.coords[n] - B.coords[0]
        CTX.assume(E(v1 @ v1) > 0, E(v2 @ v2) > 0)
        outs = []
        saved = (ROT.np, STR.np)
        try:
            for run in ("r", "s"):
                NPX.tag = run
                ROT.np = STR.np = NPX()
                CTX.pos = 0                      # both executions follow the same (forced) branch decisions
                outs.append(SymStructure.join(A, B, n, n, dist=1.5).coords)
        finally:
            ROT.np, STR.np = saved
        return [(f"same product whatever the RNG returns: row {i}[{k}]", E(outs[0][i][k]) != E(outs[1][i][k])) for i in range(2 * n) for k in range(3)]
    return f


def _num_frag(model, tag, n, apvec=None):
    g = lambda s: sr.fval(model, s)
    rows = [[g(f"{tag}{i}_{k}") for k in range(3)] for i in range(n)]
    rows.append([g(f"{tag}ap_{k}") for k in range(3)] if apvec is None else [rows[0][k] + apvec[k] for k in range(3)])
    s = Structure([Atom("C") for _ in range(n)] + [Atom(Element.Unknown, atype=AtomType.AttachmentPoint)], coords=np.array(rows, dtype=float))
    for i in range(1, n):
        s.connect(0 if i < 3 else 1, i)
    s.connect(0, n)
    return s


def replay_join(n, opt, par=None):
    """numeric replay on float64 molli: par = (unit index, sigma) for the exactly (anti)parallel poses"""
    def rp(goal, model, path):
        if par is None:
            A, B = _num_frag(model, "a", n), _num_frag(model, "b", n)
        else:
            u = [float(x) for x in UNITS[par[0]]]
            l1, l2 = sr.fval(model, "len1", 1.0), sr.fval(model, "len2", 1.0)
            A = _num_frag(model, "a", n, [l1 * x for x in u])
            B = _num_frag(model, "b", n, [par[1] * l2 * x for x in u])
        v1 = np.asarray(A.coords[n] - A.coords[0], dtype=float)
        d = sr.fval(model, "dist", 1.5)
        outs = []
        for seed in (1, 2):
            np.random.seed(seed)
            R = Structure.join(A, B, n, n, dist=d, optimize_rotation=bool(opt))
            outs.append(np.asarray(R.coords, dtype=float))
        c = outs[0]
        nb = c[n] - c[0]
        scale = max(1.0, float(np.abs(c).max()))
        probs = []
        if abs(np.linalg.norm(nb) - d) > 1e-6 * scale:
            probs.append(f"bond length {np.linalg.norm(nb)} vs requested {d}")
        if np.linalg.norm(np.cross(nb, v1)) > 1e-6 * scale * np.linalg.norm(v1) or nb @ v1 <= 0:
            probs.append("bond direction differs from A's attachment vector")
        for src, off in ((A, 0), (B, n)):
            sc = np.asarray(src.coords, dtype=float)
            for i in range(n):
                for j in range(i + 1, n):
                    if abs(_dist(sc, i, j) - _dist(c, off + i, off + j)) > 1e-6 * scale:
                        probs.append(f"fragment at rows {off}.. deformed (d{i}{j})")
            if n >= 4 and abs(_vol(sc, 0, 1, 2, 3) - _vol(c, off, off + 1, off + 2, off + 3)) > 1e-6 * scale ** 3:
                probs.append(f"fragment at rows {off}.. mirrored")
        if np.abs(outs[0] - outs[1]).max() > 1e-9 * scale:
            probs.append(f"product depends on the RNG state (max difference {np.abs(outs[0] - outs[1]).max():.3g})")
        return (not probs), f"A={np.asarray(A.coords).tolist()} B={np.asarray(B.coords).tolist()} dist={d}: " + ("; ".join(probs) or "all properties hold numerically")
    return rp


def g_optrot(res=4):
    """the real _optimize_rotation with the compiled kernel replaced by its contract (a non-negative number per scanned pose / atom pair,
    here arbitrary): the scan covers `resolution` poses turned about the given axis, and the pose of minimal steric loss is returned"""
    @_shimmed
    def f():
        n1, n2 = 1, 2
        c1 = np.array([[SR(z3.Real(f"p{i}_{k}")) for k in range(3)] for i in range(n1)], dtype=object)
        c2 = np.array([[SR(z3.Real(f"q{i}_{k}")) for k in range(3)] for i in range(n2)], dtype=object)
        ax = vec("ax")
        CTX.assume(E(ax @ ax) > 0)
        seen = {}

        class XT:
            @staticmethod
            def cdist32_eu2(a, b):
                out = np.empty((a.shape[0], a.shape[1], b.shape[0]), dtype=object)
                for idx in np.ndindex(out.shape):
                    out[idx] = sr.sym("D" + "_".join(map(str, idx)))
                    CTX.assume(E(out[idx]) >= 0)
                seen["aug"], seen["D"], seen["b"] = a, out, b
                return out
        saved_xt = sys.modules.get("molli_xt")
        sys.modules["molli_xt"] = XT
        saved = DIST.MOLLI_USING_EXTENSIONS
        DIST.MOLLI_USING_EXTENSIONS = True
        try:
            M = ORIG_OPT(c1, c2, ax, resolution=res)
        finally:
            DIST.MOLLI_USING_EXTENSIONS = saved
            if saved_xt is not None:
                sys.modules["molli_xt"] = saved_xt
            else:
                del sys.modules["molli_xt"]
        aug, D = seen["aug"], seen["D"]
        goals = [("scan has the requested resolution", z3.BoolVal(aug.shape[0] != res)),
                 ("kernel is asked for (scanned poses of fragment B) x (fragment A)", z3.BoolVal(not (aug.shape == (res, n2, 3) and seen["b"] is c1)))]
        loss = [sum(1 / (D[i, j, k] + 0.05) for j in range(n2) for k in range(n1)) for i in range(res)]
        step = 2 * math.pi / res
        for i in range(res):
            Ri = ORIG_AXIS(ax, i * step)
            pose = c2 @ Ri
            goals += [(f"scanned pose {i} = B turned by {i}*360/{res} degrees about the axis: atom {j}[{c}]", E(aug[i][j][c]) != E(pose[j][c])) for j in range(n2) for c in range(3)]
        # on this path (one outcome of the argmin comparisons) the returned matrix is that of a pose whose loss is minimal
        win = [i for i in range(res) if all(z3.is_true(z3.simplify(E(M[r, c]) == E(ORIG_AXIS(ax, i * step)[r, c]))) for r in range(3) for c in range(3))]
        goals += [("returned matrix is one of the scanned rotations", z3.BoolVal(len(win) == 0))]
        for i in win[:1]:
            goals += [(f"returned pose {i} has minimal steric loss (vs pose {o})", E(loss[i]) > E(loss[o])) for o in range(res) if o != i]
        return goals
    return f


ENCODED = ["molli.chem.structure.Structure.join", "molli.math.rotation.rotation_matrix_from_vectors", "molli.math.rotation.rotation_matrix_from_axis",
           "molli.math.distance._optimize_rotation", "molli.scripts.combine._ml_assemble", "molli.chem.bond.Bond.expected_length",
           "molli.chem.geometry.CartesianGeometry.vector", "molli.chem.geometry.CartesianGeometry.get_atom_coord"]


def sr_jobs(tier):
    q = tier == "quick"
    jobs = [("join[n=2]", g_join(2), replay_join(2, False), 4), ("join[n=4]", g_join(4), replay_join(4, False), 4),
            ("join-opt[n=2]", g_join_opt(2), replay_join(2, True), 4), ("axis-lemma", g_axis_lemma(), None, 2),
            ("hidden[generic]", g_hidden_generic(), replay_join(2, False), 4, [False])]
    units = (0, 2) if q else range(len(UNITS))
    for ui in units:
        for sigma in (1, -1):
            jobs += [(f"parallel[n=2,u={ui},s={sigma}]", g_parallel(2, ui, sigma, False), replay_join(2, False, (ui, sigma)), 8),
                     (f"parallel-hidden[n=2,u={ui},s={sigma}]", g_parallel(2, ui, sigma, True), replay_join(2, False, (ui, sigma)), 8)]
    if not q:
        jobs += [("join[n=3]", g_join(3), replay_join(3, False), 4), ("join-opt[n=4]", g_join_opt(4), replay_join(4, True), 4)]
        jobs += [(f"parallel[n=4,u={ui},s={sigma}]", g_parallel(4, ui, sigma, False), replay_join(4, False, (ui, sigma)), 8) for ui in (0, 2) for sigma in (1, -1)]
    jobs += [("optrot", g_optrot(4), None, 16)]
    return jobs


def run(rep, tier):
    from engine import xh
    from engine.common import Obligation
    rep.encoded = ENCODED
    rep.extra["module"] = "harness.C12"
    q = tier == "quick"
    T = 120 if q else 480
    rep.bounds = {"XH": "fragments from 4 kinds (2-atom chain, branched tree, 3-ring, 4-atom chiral chain) x attachment point on any atom, before or after the other atoms; charges in [-3,3], multiplicities in [1,4], "
                        "overrides Optional incl. 0; dist in {None,1.0,2.5}; 3 bond types; optimize_rotation on/off; Molecule/Structure; atom given by index or object; exactly (anti)parallel attachment vectors at 3 length ratios; "
                        "combine: every ordered selection of 1-3 of 3 attachment points x 3 atom layouts",
                  "SR": f"two fragments with 2-4 real atoms each + attachment point, ALL coordinates and the requested length symbolic reals; rotation = contract of C11 (proper rotation by construction mapping v2n to -v1n); "
                        f"optimize_rotation = contract (rotation about the passed axis by any angle); exactly (anti)parallel poses: attachment vectors along {len(UNITS)} rational unit directions with symbolic lengths, REAL rotation code; "
                        f"hidden state: real rotation code with the RNG returning fresh reals, every generic pose (cos(angle) > -1 + 1e-6, the branch condition itself); {T} s hard kill per query"}
    rep.outside = ["reals, not floats; fragments larger than 4+1 atoms", "the compiled distance kernel inside _optimize_rotation (its contract is C19's subject); the scan is checked at resolution 4 with 2+2 atoms",
                   "nearly (not exactly) antiparallel poses with cos <= -1+1e-6 other than the exactly parallel ones", "[selector-bound] for the XH constitution part"]
    rep.assumptions = ["SR: rotation_matrix_from_vectors replaced by its C11 contract in the generic-pose geometry goals (the real function is used in the exactly-parallel poses, the hidden-state goals and in all XH runs)",
                       "SR: _optimize_rotation replaced by 'rotation about the given axis by an arbitrary angle' in join-opt; the real function is analysed separately (optrot) with the kernel replaced by its definition"]
    nsplit = len(KINDS) ** 2
    env = {"XH_QUICK": "1"} if q else {}
    specs = [{"fn": "h_join_charge", "timeout": 900}]
    specs += [{"fn": "h_join_build_q", "timeout": 900 if q else 3000, "split": s, "env": env} for s in range(nsplit)]
    specs += [{"fn": "h_join_parallel", "timeout": 900 if q else 3000, "split": s, "env": env} for s in (range(nsplit) if not q else (0, 6, 12, 18, 24))]
    specs += [{"fn": "h_combine", "timeout": 900}]
    xh.run_obligations(rep, "harness.C12", specs)
    allp = []
    for label, fn, rp, mp_, *init in sr_jobs(tier):
        try:
            paths = sr.explore(fn, max_paths=mp_, initial=init[0] if init else None)
        except sr.PathBound as e:
            rep.add(Obligation(name=f"{label}/explore", engine="SR", status="inconclusive", detail=str(e)))
            continue
        allp.append((label, paths, rp))
        rep.samples.append({"function": label, "feasible_paths": [p["decisions"] for p in paths], "goals_per_path": [len(p["goals"]) for p in paths]})
    for label, paths, rp in allp:
        ctrl = tuple(g[0] for p in paths for g in p["goals"] if g[0].startswith("control:"))
        sr.discharge(rep, label, paths, timeout=T, replay=rp or (lambda *a: (None, "algebraic goal; no numeric replay")), expect_sat=ctrl)


def replay(d):
    import re
    lab = d["label"]
    n = int(re.search(r"n=(\d)", lab).group(1)) if "n=" in lab else 2
    m = re.search(r"u=(\d),s=(-?\d)", lab)
    par = (int(m.group(1)), int(m.group(2))) if m else None
    if lab.startswith(("join", "hidden", "parallel")):
        return replay_join(n, lab.startswith("join-opt"), par)(d["goal"], d["model"], None)
    return True, "no numeric replay for this goal family"
