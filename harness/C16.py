"""C16 — adding implicit hydrogens only completes valences (XH: counts and bookkeeping with symbolic charge / spin / hint; SR: placement on symbolic coordinates)."""
import os, math
from typing import Optional
import numpy as np
import z3
import molli.chem.structure as STR
import molli.math as MM
import molli.math.rotation as ROT
from molli.chem import Atom, AtomType, Bond, BondType, Element, Molecule, Structure

SPLIT = int(os.environ.get("XH_SPLIT", "-1"))
QUICK = os.environ.get("XH_QUICK") == "1"
HINT = "__implicit_hydrogens"
CENTRES = ["B", "C", "N", "O", "Al", "Si", "P", "S"]
VE = {"B": 3, "Al": 3, "C": 4, "Si": 4, "N": 5, "P": 5, "O": 6, "S": 6}                 # independent valence-electron table (groups 13-16)
NBRS = [("F", "Cl", "H"), ("C", "F", "Fe"), ("H", "N", "Br"), ("O", "C", "Cl")]
BTS = [BondType.Single, BondType.Double, BondType.Triple, BondType.Aromatic, BondType.Amide]        # zero-order bonds (Ligand, Dummy) are outside the quantifier
A0 = [0.2, -0.1, 0.3]
NPOS = [[1.3, 0.1, -0.2], [-0.5, 1.1, 0.0], [-0.4, -0.9, -0.3]]        # pyramidal around A0: centroid 0.47 A below the plane normal, no two collinear with A0
RADIUS_H = Element.H.cov_radius_1


def pick(sel, n):
    for i in range(n):
        if sel == i:
            return i
    return 0


def expected(sym, fc, spin, bv):
    return max(0, 4 - abs(4 - (VE[sym] - fc - abs(spin))) - math.ceil(bv))


def build(cls, centre, fc, spin, hint, nn, nbsel, bt0, second_shell=False):
    els = NBRS[nbsel][:nn]
    atoms = [Atom(centre, label="ctr", formal_charge=fc, formal_spin=spin)]
    if hint is not None:
        atoms[0].attrib[HINT] = hint
    atoms += [Atom(e, label=f"n{i}") for i, e in enumerate(els)]
    xyz = [A0] + NPOS[:nn]
    kw = dict(name="m", coords=np.array(xyz, dtype=float))
    if cls is Molecule:
        kw["atomic_charges"] = [0.25 * (i + 1) for i in range(len(atoms))]
    m = cls(atoms, **kw)
    for i in range(nn):
        m.connect(0, i + 1, btype=BTS[(bt0 + i) % len(BTS)] if i == 0 else BondType.Single, label=f"b{i}")
    return m


def check_after(m, before, hints):
    """the oracle: what the property states, evaluated after the call.  before = snapshot dict taken before the call"""
    n0, m0 = before["n_atoms"], before["n_bonds"]
    if m.n_atoms < n0 or m.n_bonds < m0:
        return "atoms or bonds disappeared"
    for i in range(n0):
        a = m.atoms[i]
        if a is not before["atoms"][i] or (int(a.element), a.label, a.formal_charge, a.formal_spin, int(a.atype)) != before["fields"][i]:
            return "an existing atom changed"
    for i in range(m0):
        b = m.bonds[i]
        if b is not before["bonds"][i] or (b.a1, b.a2, int(b.btype), b.label) != before["bfields"][i]:
            return "an existing bond changed"
    c = np.asarray(m.coords, dtype=float)
    if c.shape != (m.n_atoms, 3) or not np.array_equal(c[:n0], before["coords"]):
        return "existing coordinates changed / coordinate rows out of step"
    if hasattr(m, "atomic_charges"):
        q = np.asarray(m.atomic_charges, dtype=float)
        if q.shape != (m.n_atoms,) or not np.array_equal(q[:n0], before["q"]):
            return "existing partial charges changed / charge rows out of step"
    if m.n_bonds - m0 != m.n_atoms - n0:
        return "new bonds and new atoms differ in number"
    got = {i: 0 for i in range(n0)}
    for k in range(n0, m.n_atoms):
        h = m.atoms[k]
        if h.element != Element.H:
            return "a new atom is not hydrogen"
        bs = [b for b in m.bonds if b.a1 is h or b.a2 is h]
        if len(bs) != 1:
            return "a new hydrogen is not bonded exactly once"
        other = bs[0].a2 if bs[0].a1 is h else bs[0].a1
        j = next((i for i in range(n0) if m.atoms[i] is other), None)
        if j is None:
            return "a new hydrogen is bonded to a new atom"
        got[j] += 1
        if not np.all(np.isfinite(c[k])):
            return f"hydrogen on atom {j} at non-finite coordinates"
        L = m.atoms[j].cov_radius_1 + RADIUS_H
        d = float(np.linalg.norm(c[k] - c[j]))
        if abs(d - L) > 1e-3 * L:
            return f"hydrogen on atom {j} at distance {d}, sum of covalent radii {L}"
        nb = before["nbrs"][j]
        if nb:
            cent = np.mean(before["coords"][nb], axis=0)
            if float((c[k] - c[j]) @ (cent - c[j])) >= 0:
                return f"hydrogen on atom {j} points towards the centroid of its neighbours"
    for i in range(n0):
        if got[i] != before["want"][i]:
            return f"atom {i} ({m.atoms[i].element.symbol}) received {got[i]} hydrogens, expected {before['want'][i]}"
    return True


def snapshot(m):
    n0 = m.n_atoms
    s = {"n_atoms": n0, "n_bonds": m.n_bonds, "atoms": list(m.atoms), "bonds": list(m.bonds),
         "fields": [(int(a.element), a.label, a.formal_charge, a.formal_spin, int(a.atype)) for a in m.atoms],
         "bfields": [(b.a1, b.a2, int(b.btype), b.label) for b in m.bonds], "coords": np.array(m.coords, dtype=float).copy(),
         "q": np.array(m.atomic_charges, dtype=float).copy() if hasattr(m, "atomic_charges") else None}
    s["nbrs"] = [[j for j in range(n0) if m.lookup_bond(i, j) is not None] if n0 > 1 else [] for i in range(n0)]
    want = []
    for i, a in enumerate(m.atoms):
        if HINT in a.attrib:
            want.append(a.attrib[HINT])
        elif a.element.symbol in VE:
            want.append(expected(a.element.symbol, a.formal_charge, a.formal_spin, m.bonded_valence(a)))
        else:
            want.append(0)
    s["want"] = want
    return s


def h_hadd(csel: int, fc: int, spin: int, hint: Optional[int], nn: int, nbsel: int, bt0: int, cls_sel: int) -> bool:
    """
    one centre of groups 13-16 with symbolic formal charge, spin and drawing hint, 0..3 neighbours (bystanders and atoms that receive hydrogens themselves),
    first bond of a symbolic type: only hydrogens are added, per-atom counts, bonding, distance, direction, finiteness; a second call adds nothing
    pre: 0 <= csel < len(CENTRES) and -3 <= fc <= 3 and -3 <= spin <= 3 and 0 <= nn <= 3 and 0 <= nbsel < len(NBRS) and 0 <= bt0 < len(BTS) and 0 <= cls_sel <= 1
    pre: hint is None or (0 <= hint and hint + nn <= 4)
    pre: SPLIT < 0 or csel * 2 + cls_sel == SPLIT
    pre: not QUICK or (nbsel <= 1 and bt0 in (0, 1, 3))
    post: _
    """
    cls = [Molecule, Structure][pick(cls_sel, 2)]
    m = build(cls, CENTRES[pick(csel, len(CENTRES))], fc, spin, hint, pick(nn, 4), pick(nbsel, len(NBRS)), pick(bt0, len(BTS)))
    before = snapshot(m)
    m.add_implicit_hydrogens()
    r = check_after(m, before, hint)
    if r is not True:
        return False
    if any(HINT in a.attrib for a in m.atoms):
        return False                          # the hint is consumed
    n1 = m.n_atoms
    if hint is None:                          # hint-free molecule: a second call adds nothing
        m.add_implicit_hydrogens()
        if m.n_atoms != n1:
            return False
    return True


# ------------------------------------------------------------------------------------------------------------------- SR: placement
from engine import sr
from engine.sr import CTX, SR, vec, sym_angle, E

ORIG_AXIS = ROT.rotation_matrix_from_axis
ORIG_RMFV = ROT.rotation_matrix_from_vectors


class SymStructure(Structure, coords_dtype=object):
    pass


# (label, centre, neighbour elements, hydrogens expected): chemistry concrete, every coordinate symbolic
CASES = [("O-F +1H", "O", ["F"], 1), ("N-F +2H", "N", ["F"], 2), ("C-F +3H", "C", ["F"], 3), ("N(F)F +1H", "N", ["F", "F"], 1), ("C(F)F +2H", "C", ["F", "F"], 2),
         ("C(F)(F)F +1H", "C", ["F", "F", "F"], 1), ("lone O +2H", "O", [], 2), ("lone N +3H", "N", [], 3), ("lone C +4H", "C", [], 4),
         # one neighbour exactly along a coordinate axis at a fixed distance from a symbolic atom position: the REAL rotation code runs, including its
         # branch for (nearly) opposite vectors
         ("C-F(-z) +3H", "C", ["F"], 3, [(0.0, 0.0, -1.5)]), ("C-F(+z) +3H", "C", ["F"], 3, [(0.0, 0.0, 1.5)]), ("C-F(-x) +3H", "C", ["F"], 3, [(-1.5, 0.0, 0.0)]),
         ("N-F(-z) +2H", "N", ["F"], 2, [(0.0, 0.0, -1.5)])]


CUR = {}


def _concrete(x):
    return all(not isinstance(v, SR) for v in np.asarray(x, dtype=object).ravel())


def _constants(x):
    """a vector of symbolic reals whose components simplify to rational constants (a neighbour at a fixed offset from a symbolic atom) as floats, else None"""
    out = []
    for v in np.asarray(x, dtype=object).ravel():
        if isinstance(v, SR):
            e = z3.simplify(v.e)
            if not z3.is_rational_value(e):
                return None
            out.append(e.numerator_as_long() / e.denominator_as_long())
        else:
            out.append(float(v))
    return np.array(out, dtype=float)


def rmfv_contract(u, v, tol=1e-8):
    """contract of rotation_matrix_from_vectors (discharged on the real function by C11): an orthogonal matrix of determinant 1 that maps u/|u| to
    v/|v| (nine unknowns with M Mt = Mt M = I, det M = 1: the goals here are about images of fixed vectors, for which this form decides in < 1 s).
    With concrete arguments the real function runs."""
    if _concrete(u) and _concrete(v):
        return ORIG_RMFV(np.asarray(u, dtype=float), np.asarray(v, dtype=float), tol)
    cu, cv = _constants(u), _constants(v)
    if cu is not None and cv is not None:
        return ORIG_RMFV(cu, cv, tol)                    # constant direction: the real function runs (also its nearly-opposite branch)
    u, v = np.array(u, dtype=object), np.array(v, dtype=object)
    M = sr.mat("rm", 3, 3)
    MMt, MtM = M @ M.T, M.T @ M
    for i in range(3):
        for j in range(i, 3):
            CTX.assume(E(MMt[i, j]) == (1 if i == j else 0), E(MtM[i, j]) == (1 if i == j else 0))
    CTX.assume(E(sr.det3(M)) == 1)
    un, vn = u / np.linalg.norm(u), v / np.linalg.norm(v)
    img = un @ M
    for j in range(3):
        CTX.assume(E(img[j]) == E(vn[j]))
    return M


def mean_plane_contract(pts):
    """contract of mean_plane for three points (LAPACK SVD is not encodable): a unit vector orthogonal to the plane through them; its sign is free.
    Non-degeneracy of the centre is stated here, where the normal is known: the atom lies more than 0.1 A out of the plane of its neighbours."""
    pts = np.array(pts, dtype=object)
    n = vec("mpn")
    CTX.assume(E(n @ n) == 1)
    for i in (1, 2):
        CTX.assume(E(n @ (pts[i] - pts[0])) == 0)
    if CUR.get("a") is not None:
        h = n @ (pts[0] - CUR["a"])
        CTX.assume(E(h * h) > sr.lift(0.01))
    return n


def g_place(ci):
    label, centre, nbrs, hs = CASES[ci][:4]
    offsets = CASES[ci][4] if len(CASES[ci]) > 4 else None

    def f():
        saved_math = ROT.math
        ROT.math = sr.mathshim
        saved = (MM.rotation_matrix_from_vectors, MM.mean_plane)
        MM.rotation_matrix_from_vectors, MM.mean_plane = rmfv_contract, mean_plane_contract
        try:
            n = len(nbrs)
            a = vec("a")
            CUR["a"] = a
            P = [vec(f"n{i}_") for i in range(n)] if offsets is None else [a + np.array(o, dtype=object) for o in offsets]
            s = SymStructure([Atom(centre)] + [Atom(e) for e in nbrs], coords=np.array([a] + P, dtype=object).reshape((n + 1, 3)))
            for i in range(n):
                s.connect(0, i + 1)
            r = [P[i] - a for i in range(n)]
            # non-degenerate geometry: neighbours off the atom, two neighbours not collinear with it, three neighbours a proper pyramid
            for x in r:
                CTX.assume(E(x @ x) > 0)
            if n == 2:
                cr = np.cross(r[0], r[1])
                CTX.assume(E(cr @ cr) > 0)
            if n == 3:
                cr = np.cross(P[1] - P[0], P[2] - P[0])
                CTX.assume(E(cr @ cr) > 0)
            s.add_implicit_hydrogens()
            c = s.coords
            L = Element[centre].cov_radius_1 + RADIUS_H
            goals = [(f"{label}: {hs} hydrogens added", z3.BoolVal(s.n_atoms != n + 1 + hs))]
            if s.n_atoms != n + 1 + hs:
                return goals
            goals += [(f"{label}: existing coordinates unchanged [{i},{k}]", E(c[i][k]) != E(([a] + P)[i][k])) for i in range(n + 1) for k in range(3)]
            cent = sum(P[1:], P[0]) / n if n else None
            if hs == 2:
                # |H - a|^2 = (|u|^2 + |w|^2 +- 2 u.w) / 4 with u = (H1 - a) + (H2 - a), w = H1 - H2 (an identity); the three terms are decided one by one
                u, w = (c[n + 1] - a) + (c[n + 2] - a), c[n + 1] - c[n + 2]
                lo, hi = (0.999 * L) ** 2, (1.001 * L) ** 2
                ku, kw = 4 * 0.5736 ** 2 / (0.5736 ** 2 + 0.8192 ** 2), 4 * 0.8192 ** 2 / (0.5736 ** 2 + 0.8192 ** 2)
                goals += [(f"{label}: (H1-a)+(H2-a) orthogonal to H1-H2", E(u @ w) != 0),
                          (f"{label}: |(H1-a)+(H2-a)|^2 within 1e-3 of its share of (2L)^2", z3.Or(E(u @ u) < sr.lift(ku * lo), E(u @ u) > sr.lift(ku * hi))),
                          (f"{label}: |H1-H2|^2 within 1e-3 of its share of (2L)^2", z3.Or(E(w @ w) < sr.lift(kw * lo), E(w @ w) > sr.lift(kw * hi)))]
            for h in range(n + 1, n + 1 + hs):
                d = c[h] - a
                if hs == 1:      # a - vec * L with vec normalised: exact in the reals
                    goals += [(f"{label}: H{h} at the sum of covalent radii (exact)", E(d @ d) != sr.lift(L) * sr.lift(L))]
                elif hs != 2:    # a rotated tetrahedron vertex times L: |H - a|^2 = L^2 |vertex|^2 exactly; the vertices of molli's table are unit vectors to 1e-8
                    from molli.math.polyhedra import TETRAHEDRON
                    from fractions import Fraction
                    t = [Fraction(float(x)) for x in TETRAHEDRON[h - n - 1 + (1 if hs == 3 else 0)]]
                    tt = sum(x * x for x in t)
                    fL = Fraction(float(L))
                    goals += [(f"{label}: H{h} at the sum of covalent radii times |tetrahedron vertex| (exact)", E(d @ d) != sr.lift(fL * fL * tt)) if (n and offsets is None) else
                              (f"{label}: H{h} at the sum of covalent radii (1e-3)", z3.Or(E(d @ d) < sr.lift((0.999 * L) ** 2), E(d @ d) > sr.lift((1.001 * L) ** 2))),
                              (f"{label}: tetrahedron vertex {h - n - 1} is a unit vector to 1e-3", z3.BoolVal(abs(float(tt) - 1) > 1e-3))]
                if n:
                    goals += [(f"{label}: H{h} points away from the neighbours' centroid", E(d @ (cent - a)) >= 0)]
            goals += [(f"control: {label}: H at twice the distance (must be sat)", z3.Or(E((c[n + 1] - a) @ (c[n + 1] - a)) < sr.lift((1.9 * L) ** 2), E((c[n + 1] - a) @ (c[n + 1] - a)) > sr.lift((2.1 * L) ** 2)))]
            return goals
        finally:
            ROT.math = saved_math
            MM.rotation_matrix_from_vectors, MM.mean_plane = saved
    return f


def replay_place(ci):
    label, centre, nbrs, hs = CASES[ci][:4]
    offsets = CASES[ci][4] if len(CASES[ci]) > 4 else None

    def rp(goal, model, path):
        n = len(nbrs)
        a = np.array([sr.fval(model, f"a{k}") for k in range(3)])
        P = [np.array([sr.fval(model, f"n{i}_{k}") for k in range(3)]) for i in range(n)] if offsets is None else [a + np.array(o) for o in offsets]
        s = Structure([Atom(centre)] + [Atom(e) for e in nbrs], coords=np.array([a] + P, dtype=float).reshape((n + 1, 3)))
        for i in range(n):
            s.connect(0, i + 1)
        import warnings
        with warnings.catch_warnings():
            warnings.simplefilter("ignore")
            before = snapshot(s)
            try:
                s.add_implicit_hydrogens()
            except Exception as e:
                return False, f"{label} at a={a.tolist()} neighbours={[p.tolist() for p in P]}: raised {type(e).__name__}: {e}"
            r = check_after(s, before, None)
        return (r is True), f"{label} at a={a.tolist()} neighbours={[p.tolist() for p in P]}: " + ("all clauses hold numerically" if r is True else str(r))
    return rp


ENCODED = ["molli.chem.structure.Structure.add_implicit_hydrogens", "molli.chem.atom.Atom.valence_electrons", "molli.chem.bond.Bond.order", "molli.chem.bond.Connectivity.bonded_valence",
           "molli.math.plane.mean_plane", "molli.chem.molecule.Molecule.add_atom", "molli.chem.structure.Structure.add_atom"]


def run(rep, tier):
    from engine import xh
    rep.encoded = ENCODED
    rep.extra["module"] = "harness.C16"
    q = tier == "quick"
    rep.bounds = {"XH counts": "one centre from {B,C,N,O,Al,Si,P,S} with formal charge and spin in [-3,3] and drawing hint None/0..4 (hint + neighbours <= 4) symbolic; 0-3 neighbours from 4 element menus "
                               "(bystanders F, Cl, Br, H, Fe and atoms that receive hydrogens themselves), first bond type from {Single, Double, Triple, Aromatic, Amide}; Molecule and Structure; concrete pyramidal template geometry",
                  "SR placement": "9 chemistries (1 neighbour +1/+2/+3 H, 2 neighbours +1/+2 H, 3 neighbours +1 H, bare atom +2/+3/+4 H) with ALL coordinates symbolic reals; non-degeneracy: neighbours off the atom, "
                                  "two neighbours not collinear with it, three neighbours spanning a plane the atom is more than 0.1 A away from; distance tolerance 1e-3 relative"}
    rep.outside = ["degenerate geometries (collinear neighbours, a three-neighbour centre within 0.1 A of its neighbours' plane)", "zero-order bonds (Ligand, Dummy) and hints that bring an atom above four substituents",
                   "atoms given by index (add_implicit_hydrogens(0) is not part of the property)", "reals, not floats; the SVD inside mean_plane (contract: unit normal of the plane through three points, sign free)",
                   "bundled CDXML fragments (C13's subject)"]
    rep.assumptions = ["SR: rotation_matrix_from_vectors replaced by its C11 contract (orthogonal, det 1, maps the first tetrahedron vertex onto the bond direction) when its arguments are symbolic; the real function runs on concrete arguments",
                       "SR: mean_plane replaced by its contract for three points"]
    env = {"XH_QUICK": "1"} if q else {}
    specs = [{"fn": "h_hadd", "timeout": 900 if q else 3000, "split": s, "env": env} for s in range(16)]
    xh.run_obligations(rep, "harness.C16", specs)
    T = 300 if q else 900
    allp = []
    for ci, case in enumerate(CASES):
        label = f"place[{case[0]}]"
        try:
            # the three-neighbour case forks on `abs(align) > 0.05`; only the pyramidal side (True) is inside the claim
            paths = sr.explore(g_place(ci), max_paths=8)
        except sr.PathBound as e:
            from engine.common import Obligation
            rep.add(Obligation(name=f"{label}/explore", engine="SR", status="inconclusive", detail=str(e)))
            continue
        allp.append((label, paths, replay_place(ci)))
        rep.samples.append({"function": label, "feasible_paths": [p["decisions"] for p in paths], "goals_per_path": [len(p["goals"]) for p in paths]})
    for label, paths, rp in allp:
        ctrl = tuple(g[0] for p in paths for g in p["goals"] if g[0].startswith("control:"))
        sr.discharge(rep, label, paths, timeout=T, replay=rp, expect_sat=ctrl)


def replay(d):
    import re
    lab = re.match(r"place\[(.*)\]", d["label"]).group(1)
    ci = next(i for i, c in enumerate(CASES) if c[0] == lab)
    return replay_place(ci)(d["goal"], d["model"], None)
