"""C09 — every public load/dump entry point agrees with the class-level codec (XH, [selector-bound])."""
import os, io
import numpy as np
import molli as ml
import molli.reader as RD
import molli.writer as WR
from molli.chem import Atom, Molecule, Structure, ConformerEnsemble

SPLIT = int(os.environ.get("XH_SPLIT", "-1"))
REAL = os.environ.get("XH_REAL") == "1"
HAS_REAL = True


def _mk():
    a = Molecule([Atom("C", label="C1"), Atom("H", label="H1")], name="first", coords=[[0.0, 0.0, 0.0], [1.09, 0.0, 0.0]], atomic_charges=[-0.1, 0.1])
    a.connect(0, 1)
    b = Molecule(a, name="second", coords=[[0.5, 0.0, 0.0], [1.59, 0.25, 0.0]], atomic_charges=[-0.2, 0.2])
    return a, b


A, B = _mk()
TEXT = {"xyz": A.dumps_xyz() + B.dumps_xyz(), "mol2": A.dumps_mol2() + B.dumps_mol2()}
FMTS = ["xyz", "mol2", "cdxml", "pdb", "nonsense", "XYZ"]
OTYPES = ["molecule", "ensemble", Molecule, Structure, ConformerEnsemble]
NAMES = [None, "zz", ""]


# ---- file model for molli.reader / molli.writer (their module-level `open`); real temp files for replay --------------------------------
class _TextFile(io.StringIO):
    def __init__(self, store, path, mode):
        super().__init__(store.get(path, "") if "r" in mode or "a" in mode else "")
        if "a" in mode:
            self.seek(0, 2)
        self._store, self._path, self._mode = store, path, mode

    def close(self):
        if not self.closed and self._mode[0] in "aw":
            self._store[self._path] = self.getvalue()
        super().close()


STORE = {}
OPENED = []


def _open(path, mode="r", *a, **k):
    path = str(path)
    if "r" in mode and path not in STORE:
        raise FileNotFoundError(path)
    f = _TextFile(STORE, path, mode)
    OPENED.append(f)
    return f


if REAL:
    import tempfile
    _TMP = tempfile.mkdtemp(prefix="verif_c09_")
else:
    RD.open = _open
    WR.open = _open


def put_file(name, text):
    if REAL:
        p = os.path.join(_TMP, name)
        with open(p, "w") as f:
            f.write(text)
        return p
    STORE["/m/" + name] = text
    return "/m/" + name


def get_file(path):
    if REAL:
        with open(path) as f:
            return f.read()
    return STORE.get(str(path), None)


def new_path(name):
    if REAL:
        p = os.path.join(_TMP, name)
        if os.path.exists(p):
            os.remove(p)
        return p
    STORE.pop("/m/" + name, None)
    return "/m/" + name


def pick(sel, n):
    for i in range(n):
        if sel == i:
            return i
    return 0


def same(x, y):
    if type(x) is not type(y):
        return False
    if x.name != y.name or x.n_atoms != y.n_atoms or [int(a.element) for a in x.atoms] != [int(a.element) for a in y.atoms]:
        return False
    if [a.label for a in x.atoms] != [a.label for a in y.atoms]:
        return False
    if hasattr(x, "n_conformers") and x.n_conformers != y.n_conformers:
        return False
    if not np.allclose(np.asarray(x.coords, dtype=float), np.asarray(y.coords, dtype=float), equal_nan=True):
        return False
    if hasattr(x, "bonds") and len(x.bonds) != len(y.bonds):
        return False
    return True


def cls_of(otype):
    return Molecule if otype == "molecule" else ConformerEnsemble if otype == "ensemble" else otype


def h_load(fn: int, fmt_sel: int, ot_sel: int, name_sel: int, explicit_fmt: bool) -> bool:
    """
    load / loads / load_all / loads_all against the class methods, all formats x output types x name overrides.
    pre: 0 <= fn <= 3 and 0 <= fmt_sel < len(FMTS) and 0 <= ot_sel < len(OTYPES) and 0 <= name_sel < len(NAMES)
    pre: SPLIT < 0 or fn * 4 + fmt_sel % 4 == SPLIT
    post: _
    """
    fn, fmt, otype, name = pick(fn, 4), FMTS[pick(fmt_sel, len(FMTS))], OTYPES[pick(ot_sel, len(OTYPES))], NAMES[pick(name_sel, len(NAMES))]
    cls = cls_of(otype)
    is_path = fn in (0, 2)
    if fmt == "cdxml":
        if not is_path:
            try:
                (ml.loads if fn == 1 else ml.loads_all)("<CDXML/>", "cdxml", otype=otype, name=name)
                return False
            except (NotImplementedError, ValueError):
                return True
        return True          # cdxml from a path: covered by h_load_cdxml (real bundled file)
    supported = fmt in ("xyz", "mol2")
    text = TEXT.get(fmt, "garbage")
    src = put_file("in." + fmt, text) if is_path else text
    kw = dict(otype=otype, name=name)
    if is_path and not explicit_fmt:
        args = (src,)
    else:
        args = (src, fmt)
    f = [ml.load, ml.loads, ml.load_all, ml.loads_all][fn]
    want_list = fn >= 2
    ens = cls is ConformerEnsemble
    try:
        got = f(*args, **kw)
    except ValueError:
        # unsupported formats, and *_all with ensembles (documented as ambiguous), must raise ValueError
        return (not supported) or (want_list and ens)
    if not supported:
        return False
    if want_list and ens:
        return False
    if want_list:
        if not isinstance(got, list):
            return False
        exp = getattr(cls, f"loads_all_{fmt}")(text, name=name)
        if len(got) != len(exp) or len(got) != 2:
            return False
        for g, e in zip(got, exp):
            if not same(g, e):
                return False
            if name and g.name != name:
                return False
        return True
    if isinstance(got, list):
        return False
    exp = getattr(cls, f"loads_{fmt}")(text, name=name)
    if not same(got, exp):
        return False
    if name and got.name != name:          # honoured name override
        return False
    if not name and not ens and got.name != ("first" if fmt == "mol2" else got.name):
        return False
    if ens and got.n_conformers != 2:
        return False
    return True


# ---- a path whose content changes between two loads -------------------------------------------------------------------------------------
import molli.ftypes.cdxml as CX
_REAL_ET = CX.et
CUR = {}


class _ET:
    """xml.etree for molli.ftypes.cdxml in the symbolic runs: parse() of the virtual document path reads the file it currently stands for
    (CrossHair does not let traced code write files; the real replay copies the file instead)"""

    def __getattr__(self, n):
        return getattr(_REAL_ET, n)

    @staticmethod
    def parse(path, *a, **k):
        return _REAL_ET.parse(CUR.get(str(path), path), *a, **k)


def _docs():
    from harness.C13 import _page_files            # two small generated three-fragment pages whose first fragments differ
    f = _page_files()
    return [f[0], f[1]]


def set_cdxml(which):
    src = _docs()[which]
    if REAL:
        import shutil
        p = os.path.join(_TMP, "doc.cdxml")
        shutil.copyfile(src, p)
        return p
    CX.et = _ET()
    CUR["/m/doc.cdxml"] = str(src)
    return "/m/doc.cdxml"


TEXT2 = {"xyz": B.dumps_xyz() + A.dumps_xyz() + A.dumps_xyz(), "mol2": B.dumps_mol2() + A.dumps_mol2() + A.dumps_mol2()}


def h_reload(fn: int, fmt_sel: int, ot_sel: int, first: int) -> bool:
    """
    the same path loaded twice with its content replaced in between (load / load_all; xyz, mol2, cdxml): each call agrees with the class-level
    codec applied to what the file holds at that moment
    pre: 0 <= fn <= 1 and 0 <= fmt_sel <= 2 and 0 <= ot_sel <= 3 and 0 <= first <= 1
    post: _
    """
    fn, fmt, otype, first = pick(fn, 2), FMTS[pick(fmt_sel, 3)], OTYPES[pick(ot_sel, 4)], pick(first, 2)
    cls = cls_of(otype)
    if fn == 1 and cls is ConformerEnsemble:
        return True                              # *_all with ensembles is documented as ambiguous
    from crosshair.tracers import NoTracing
    try:
        # the selectors are concrete by now; the loads run outside the tracer, because CrossHair traces into the Python function behind a C-level
        # wrapper such as functools.lru_cache and would make a cache on the loading path invisible
        with NoTracing():
            for step in (first, 1 - first):
                if fmt == "cdxml":
                    path = set_cdxml(step)
                    doc = ml.CDXMLFile(_docs()[step])
                    if fn == 0:
                        got = [ml.load(path, otype=otype)]
                        exp = [cls(doc._parse_fragment(doc.xfrags[0]))]
                    else:
                        got = ml.load_all(path, otype=otype)
                        exp = [cls(doc._parse_fragment(fg)) for fg in doc.xfrags]
                else:
                    text = (TEXT if step == 0 else TEXT2)[fmt]
                    path = put_file("doc." + fmt, text)
                    if fn == 0:
                        got = [ml.load(path, otype=otype)]
                        exp = [getattr(cls, f"loads_{fmt}")(text)]
                    else:
                        got = ml.load_all(path, otype=otype)
                        exp = getattr(cls, f"loads_all_{fmt}")(text)
                if len(got) != len(exp):
                    return False
                for g, e in zip(got, exp):
                    if type(g) is not cls or g.n_atoms != e.n_atoms or [int(a.element) for a in g.atoms] != [int(a.element) for a in e.atoms]:
                        return False
                    if fmt != "cdxml" and not same(g, e):
                        return False
            return True
    finally:
        if not REAL:
            CX.et = _REAL_ET


def h_load_cdxml(fn: int, ot_sel: int, name_sel: int, key_sel: int) -> bool:
    """
    load / load_all of a bundled CDXML file against CDXMLFile: objects of the requested type, lists where promised, keys and names honoured
    pre: 0 <= fn <= 1 and 0 <= ot_sel <= 3 and 0 <= name_sel <= 1 and 0 <= key_sel <= 2 and (fn == 0 or key_sel == 0)
    pre: SPLIT < 0 or (fn * 4 + ot_sel) * 2 + name_sel == SPLIT
    post: _
    """
    fn, otype, name, ks = pick(fn, 2), OTYPES[pick(ot_sel, 4)], NAMES[pick(name_sel, len(NAMES))], pick(key_sel, 3)
    cls = cls_of(otype)
    path = ml.files.parser_demo_cdxml
    cdxf = ml.CDXMLFile(path)
    keys = list(cdxf.keys())
    key = None if ks == 0 else keys[0] if ks == 1 else keys[-1]
    if fn == 0:
        got = ml.load(path, key=key, otype=otype, name=name)
        if type(got) is not cls:
            return False
        exp = cdxf[key] if key is not None else cdxf._parse_fragment(cdxf.xfrags[0], name=name)
        if got.n_atoms != exp.n_atoms or [int(a.element) for a in got.atoms] != [int(a.element) for a in exp.atoms]:
            return False
        if key is not None and not name and got.name != key:
            return False
        return True
    got = ml.load_all(path, otype=otype, name=name) if cls is not ConformerEnsemble else None
    if got is None:
        try:
            ml.load_all(path, otype=otype, name=name)
            return False
        except ValueError:
            return True
    return isinstance(got, list) and len(got) == len(cdxf.xfrags) and all(type(g) is cls for g in got)


def h_dump(fn: int, fmt_sel: int, obj_sel: int, target: int, mode_sel: int) -> bool:
    """
    dump / dumps against dump_<fmt> / dumps_<fmt>: text written to the stream given, caller's stream left open, paths appended / overwritten,
    ValueError for unsupported formats.
    pre: 0 <= fn <= 1 and 0 <= fmt_sel < len(FMTS) and 0 <= obj_sel <= 2 and 0 <= target <= 2 and 0 <= mode_sel <= 1
    pre: SPLIT < 0 or fmt_sel == SPLIT
    post: _
    """
    fn, fmt, osel, target, mode = pick(fn, 2), FMTS[pick(fmt_sel, len(FMTS))], pick(obj_sel, 3), pick(target, 3), ["a", "w"][pick(mode_sel, 2)]
    if osel == 0:
        obj = A
    elif osel == 1:
        obj = Structure(A)
    else:
        obj = ConformerEnsemble([A, B])
    supported = fmt in ("xyz", "mol2")
    exp = getattr(obj, f"dumps_{fmt}")() if supported else None
    if fn == 1:
        try:
            got = ml.dumps(obj, fmt)
        except ValueError:
            return not supported
        return supported and got == exp
    if target == 0:                      # open text stream owned by the caller
        s = io.StringIO()
        s.write("PRE\n")
        try:
            ml.dump(obj, s, fmt)
        except ValueError:
            return (not supported) and not s.closed and s.getvalue() == "PRE\n"
        if not supported or s.closed:
            return False
        return s.getvalue() == "PRE\n" + exp
    # path targets: with explicit format, or guessed from the suffix
    p = new_path("out." + (fmt if target == 1 else "dat"))
    if not REAL:
        STORE[p] = "OLD\n"
    else:
        with open(p, "w") as f:
            f.write("OLD\n")
    try:
        if target == 1:
            ml.dump(obj, p, mode=mode)
        else:
            ml.dump(obj, p, fmt, mode=mode)
    except ValueError:
        ok = not supported
    else:
        ok = supported and get_file(p) == ("OLD\n" if mode == "a" else "") + exp
    if not REAL:
        for f in OPENED:
            if not f.closed:
                return False             # a stream the entry point opened itself must be closed again
        OPENED.clear()
    return ok


ENCODED = ["molli.reader.load", "molli.reader.loads", "molli.reader.load_all", "molli.reader.loads_all", "molli.writer.dump", "molli.writer.dumps",
           "molli.chem.ensemble.ConformerEnsemble.load_xyz", "molli.chem.ensemble.ConformerEnsemble.load_mol2", "molli.chem.ensemble.ConformerEnsemble.__init__"]


def run(rep, tier):
    from engine import xh
    rep.encoded = ENCODED
    rep.bounds = {"matrix": "{load, loads, load_all, loads_all} x {xyz, mol2, cdxml, pdb, nonsense, XYZ} x {'molecule', 'ensemble', Molecule, Structure, ConformerEnsemble} x name {None, 'zz', ''} x format explicit / from suffix; "
                            "{dump, dumps} x formats x {Molecule, Structure, ConformerEnsemble} x {caller's stream, path with suffix, path + explicit format} x mode {a, w}",
                  "inputs": "generated 2-molecule xyz / mol2 texts (2 atoms each), bundled parser_demo.cdxml"}
    rep.outside = ["the openbabel parser/writer branches (openbabel is not installed)", "[selector-bound]: configuration cells are enumerated by the solver"]
    rep.assumptions = ["module-level open() of molli.reader / molli.writer is an in-memory text file model (replay uses real temporary files)"]
    specs = [{"fn": "h_load", "timeout": 900, "split": s} for s in range(16)] + [{"fn": "h_load_cdxml", "timeout": 900, "split": s} for s in range(16)] + [{"fn": "h_reload", "timeout": 900}]
    specs += [{"fn": "h_dump", "timeout": 900, "split": s} for s in range(len(FMTS))]
    xh.run_obligations(rep, "harness.C09", specs)
    xh.known_witness(rep, "harness.C09")
