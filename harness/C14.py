"""C14 — a conformer ensemble stays rectangular and its conformers are live views (XH + SHP shape-level numpy model)."""
import os
import numpy as real_np

SPLIT = int(os.environ.get("XH_SPLIT", "-1"))
SHP = os.environ.get("XH_REAL") != "1" and os.environ.get("C14_MODE", "shp") == "shp"
import molli.chem.ensemble as ENS
import molli.chem.geometry as GEO
import molli.chem.molecule as MOL
from molli.chem import Atom, Molecule, CartesianGeometry, ConformerEnsemble, Structure
from engine import shapenp

HAS_REAL = True     # replay = the same scenario on real numpy arrays (XH_REAL=1)
_np_saved = (ENS.np, GEO.np, MOL.np)


def use_shape_numpy(on: bool):
    if on:
        ENS.np = GEO.np = MOL.np = shapenp
    else:
        ENS.np, GEO.np, MOL.np = _np_saved


def xp():
    return shapenp if ENS.np is shapenp else real_np


def shp(a):
    return tuple(a.shape)


def rect(ens, nc, na):
    return shp(ens._coords) == (nc, na, 3) and shp(ens._atomic_charges) == (nc, na) and shp(ens._weights) == (nc,) and ens.n_conformers == nc


def view(ens, i, symbolic=False):
    """ens[i]; for a *symbolic* index the Conformer is constructed directly, because `match locator: case int()` in __getitem__
    does not recognise CrossHair's symbolic int (tool artefact, see DESIGN.md 2.1); __getitem__ itself is exercised with concrete indices"""
    return ENS.Conformer(ens, i) if symbolic else ens[i]


def views_ok(ens, i, na, symbolic=False):
    """conformer i can read coordinates and charges of the right extent"""
    c = view(ens, i, symbolic)
    return shp(c.coords) == (na, 3) and shp(c.atomic_charges) == (na,)


def atoms(na):
    return [Atom("C") for _ in range(na)]


def pick(sel, n):
    for i in range(n):
        if sel == i:
            return i
    return None


CTORS = ["atoms", "molecule", "molecule list", "ensemble", "empty+n_atoms"]
OPS = ["none", "append geometry", "append molecule", "extend ensemble", "extend list", "extend empty list", "scale", "translate 1d", "translate 2d",
       "rotate", "conformer coords=", "conformer charges=", "invert", "append twice", "extend generator", "extend iter(ensemble)", "extend tuple"]


def build(ctor, nc, na):
    """an arbitrary rectangular pre-state through each constructor branch; nc may be symbolic except for 'molecule list'"""
    np = xp()
    k = CTORS[ctor]
    if k == "atoms":
        return ConformerEnsemble(atoms(na), n_conformers=nc), nc
    if k == "empty+n_atoms":
        return ConformerEnsemble(n_conformers=nc, n_atoms=na), nc
    if k == "molecule":
        m = Molecule(atoms(na))
        return ConformerEnsemble(m, n_conformers=nc), (nc if nc != 0 else 1)
    if k == "molecule list":
        n = pick(nc, 4)
        if n is None or n == 0:
            return None, None
        return ConformerEnsemble([Molecule(atoms(na)) for _ in range(n)]), n
    src = ConformerEnsemble(atoms(na), n_conformers=nc)
    return ConformerEnsemble(src), nc


def step(ens, op, nc, na, nc2, i):
    """one operation; returns the expected conformer count afterwards, or None when the operation must be refused"""
    np = xp()
    k = OPS[op]
    if k == "none":
        return nc
    if k == "append geometry":
        ens.append(CartesianGeometry(n_atoms=na))
        return nc + 1
    if k == "append molecule":
        ens.append(Molecule(atoms(na)))
        return nc + 1
    if k == "append twice":
        ens.append(Molecule(atoms(na)))
        ens.append(CartesianGeometry(n_atoms=na))
        return nc + 2
    if k == "extend ensemble":
        ens.extend(ConformerEnsemble(atoms(na), n_conformers=nc2))
        return nc + nc2
    if k == "extend list":
        ens.extend([CartesianGeometry(n_atoms=na), Molecule(atoms(na))])
        return nc + 2
    if k == "extend generator":          # a one-shot iterable is a legal Iterable[CartesianGeometry]
        ens.extend(x for x in [CartesianGeometry(n_atoms=na), Molecule(atoms(na)), CartesianGeometry(n_atoms=na)])
        return nc + 3
    if k == "extend iter(ensemble)":
        ens.extend(iter(ConformerEnsemble(atoms(na), n_conformers=2)))
        return nc + 2
    if k == "extend tuple":
        ens.extend((Molecule(atoms(na)),))
        return nc + 1
    if k == "extend empty list":
        ens.extend([])
        return nc
    if k == "scale":
        ens.scale(2.5)
        return nc
    if k == "invert":
        ens.invert()
        return nc
    if k == "translate 1d":
        ens.translate([1.0, 2.0, 3.0])
        return nc
    if k == "translate 2d":
        ens.translate(np.zeros((nc, 3)))
        return nc
    if k == "rotate":
        ens.rotate(np.zeros((3, 3)))
        return nc
    if k == "conformer coords=":
        if not (0 <= i < nc):
            return nc
        view(ens, i, True).coords = np.zeros((na, 3))
        return nc
    if k == "conformer charges=":
        if not (0 <= i < nc):
            return nc
        view(ens, i, True).atomic_charges = np.zeros((na,))
        return nc
    raise AssertionError(k)


def h_shape_step(ctor: int, op: int, nc: int, na_sel: int, nc2: int, i: int, j: int) -> bool:
    """
    One inductive step on array *extents*: arbitrary rectangular pre-state (nc conformers symbolic up to 1000, na atoms in 0..3),
    one operation, then rectangularity and usability of an arbitrary conformer view j.  Runs molli on the shape-level numpy model.
    pre: 0 <= ctor < len(CTORS) and 0 <= op < len(OPS) and 0 <= nc <= 1000 and 0 <= na_sel <= 3 and 0 <= nc2 <= 1000
    pre: -1 <= i <= 1001 and 0 <= j <= 2002
    pre: SPLIT < 0 or op == SPLIT
    post: _
    """
    na = pick(na_sel, 4)
    use_shape_numpy(SHP)
    try:
        if not SHP:                       # replay on real numpy: same scenario, concrete extents
            pass
        ens, n0 = build(ctor, nc, na)
        if ens is None:
            return True
        if not rect(ens, n0, na):
            return False
        n1 = step(ens, op, n0, na, nc2, i)
        if not rect(ens, n1, na):
            return False
        if 0 <= j < n1:
            return views_ok(ens, j, na, True) and views_ok(ens, -1, na) and views_ok(ens, 0, na)
        return True
    finally:
        use_shape_numpy(False)


def _content_ens(nc, na):
    e = ConformerEnsemble([Atom("C", label=f"a{k}") for k in range(na)], n_conformers=nc, name="e")
    e.coords = real_np.arange(nc * na * 3, dtype=float).reshape((nc, na, 3))
    e.atomic_charges = real_np.arange(nc * na, dtype=float).reshape((nc, na)) / 10
    e.weights = real_np.arange(1, nc + 1, dtype=float)
    for k in range(1, na):
        e.connect(0, k)
    return e


def h_live_views(nc_sel: int, na_sel: int, i_sel: int, what: int) -> bool:
    """
    Conformer i is a live view of row i: a write through it (coords =, atomic_charges =, in-place cell, translate, scale)
    changes row i only and reads go through; real numpy, extents by selector.
    pre: 1 <= nc_sel <= 3 and 1 <= na_sel <= 3 and 0 <= i_sel <= 2 and 0 <= what <= 5
    post: _
    """
    nc, na, i = pick(nc_sel, 4), pick(na_sel, 4), pick(i_sel, 3)
    if i >= nc:
        return True
    e = _content_ens(nc, na)
    c0, q0, w0 = e.coords.copy(), e.atomic_charges.copy(), e.weights.copy()
    cf = e[i]
    if not (real_np.array_equal(cf.coords, c0[i]) and real_np.array_equal(cf.atomic_charges, q0[i])):
        return False
    if cf.n_atoms != na or cf.name != "e" or len(cf.bonds) != na - 1:
        return False
    expect_c, expect_q = c0.copy(), q0.copy()
    if what == 0:
        cf.coords = real_np.full((na, 3), 7.5)
        expect_c[i] = 7.5
    elif what == 1:
        cf.atomic_charges = real_np.full((na,), -2.5)
        expect_q[i] = -2.5
    elif what == 2:
        cf.coords[0, 1] = 99.0
        expect_c[i, 0, 1] = 99.0
    elif what == 3:
        cf.translate([1.0, 0.0, -1.0])
        expect_c[i] += [1.0, 0.0, -1.0]
    elif what == 4:
        cf.scale(2.0)
        expect_c[i] *= 2.0
    else:
        cf.atomic_charges[0] = 3.25
        expect_q[i, 0] = 3.25
    return real_np.array_equal(e.coords, expect_c) and real_np.array_equal(e.atomic_charges, expect_q) and real_np.array_equal(e.weights, w0) \
        and real_np.array_equal(e[i].coords, expect_c[i]) and real_np.array_equal(e[i].atomic_charges, expect_q[i])


def h_iteration(nc_sel: int, mode: int) -> bool:
    """
    Iteration visits each conformer exactly once in order: plain, nested, two interleaved iterators, iteration while another is suspended, slices.
    pre: 0 <= nc_sel <= 3 and 0 <= mode <= 4
    post: _
    """
    nc = pick(nc_sel, 4)
    e = _content_ens(nc, 2)
    want = list(range(nc))
    if mode == 0:
        return [c._conf_id for c in e] == want and [c._conf_id for c in e] == want
    if mode == 1:
        pairs = [(a._conf_id, b._conf_id) for a in e for b in e]
        return pairs == [(a, b) for a in want for b in want]
    if mode == 2:
        it1, it2 = iter(e), iter(e)
        out1, out2 = [], []
        for _ in range(nc):
            out1.append(next(it1)._conf_id)
            out2.append(next(it2)._conf_id)
        done = 0
        for it in (it1, it2):
            try:
                next(it)
            except StopIteration:
                done += 1
        return out1 == want and out2 == want and done == 2
    if mode == 3:
        outer = []
        for a in e:
            outer.append(a._conf_id)
            if len(list(e)) != nc:
                return False
        return outer == want
    return [c._conf_id for c in e[:]] == want and [c._conf_id for c in e[0:nc]] == want and (nc == 0 or e[-1]._conf_id in (-1, nc - 1))


def h_grown_usable(nc_sel: int, na_sel: int, how: int) -> bool:
    """
    After append / extend every conformer (old and new) can be read, written as mol2/xyz and the ensemble serialises and deserialises
    with the right extents; appended molecules bring their coordinates (and partial charges), existing rows are unchanged.
    pre: 0 <= nc_sel <= 2 and 1 <= na_sel <= 3 and 0 <= how <= 8
    post: _
    """
    import molli.chem.io as mio
    nc, na = pick(nc_sel, 3), pick(na_sel, 4)
    e = _content_ens(nc, na)
    if how >= 6:
        # a growth step that is refused (the other object has another number of atoms) leaves the ensemble as it was: still rectangular, same content
        c0, q0, w0 = e.coords.copy(), e.atomic_charges.copy(), e.weights.copy()
        other_na = na + 1
        try:
            if how == 6:
                e.extend(_content_ens(2, other_na))
            elif how == 7:
                e.append(Molecule([Atom("C") for _ in range(other_na)], coords=real_np.zeros((other_na, 3))))
            else:
                e.extend([Molecule([Atom("C") for _ in range(other_na)], coords=real_np.zeros((other_na, 3)))])
            return False                                   # an atom-count mismatch must not be accepted silently
        except (ValueError, IndexError, TypeError):
            pass
        if not rect(e, nc, na):
            return False
        return real_np.array_equal(e.coords, c0) and real_np.array_equal(e.atomic_charges, q0) and real_np.array_equal(e.weights, w0)
    c0, q0, w0 = e.coords.copy(), e.atomic_charges.copy(), e.weights.copy()
    old_views = [e[k] for k in range(nc)]          # conformer views taken before the growth: they stay views of their rows afterwards
    newc = real_np.full((na, 3), 0.5)
    newq = real_np.full((na,), 0.25)
    m = Molecule([Atom("C") for _ in range(na)], coords=newc, atomic_charges=newq)
    g = CartesianGeometry([Atom("C") for _ in range(na)], coords=newc * 2)
    if how == 0:
        e.append(m)
        added = [(newc, newq)]
    elif how == 1:
        e.append(g)
        added = [(newc * 2, None)]
    elif how == 2:
        e.extend([m, g])
        added = [(newc, newq), (newc * 2, None)]
    elif how == 4:
        e.extend(x for x in (m, g))
        added = [(newc, newq), (newc * 2, None)]
    elif how == 5:
        o = _content_ens(2, na)
        e.extend(iter(o))
        added = [(o.coords[0], o.atomic_charges[0]), (o.coords[1], o.atomic_charges[1])]
    else:
        o = _content_ens(2, na)
        e.extend(o)
        added = [(o.coords[0], o.atomic_charges[0]), (o.coords[1], o.atomic_charges[1])]
    n1 = nc + len(added)
    if not rect(e, n1, na):
        return False
    if not (real_np.array_equal(e.coords[:nc], c0) and real_np.array_equal(e.atomic_charges[:nc], q0) and real_np.array_equal(e.weights[:nc], w0)):
        return False
    for k, (cc, qq) in enumerate(added):
        if not real_np.array_equal(e.coords[nc + k], cc):
            return False
        if qq is not None and not real_np.array_equal(e.atomic_charges[nc + k], qq):
            return False
        if not real_np.all(real_np.isfinite(e.atomic_charges[nc + k])) or not real_np.isfinite(e.weights[nc + k]):
            return False
    for cf in e:
        if len(cf.dumps_mol2()) == 0 or len(cf.dumps_xyz()) == 0:
            return False
    for k, cf in enumerate(old_views):
        if not (real_np.array_equal(cf.coords, e.coords[k]) and real_np.array_equal(cf.atomic_charges, e.atomic_charges[k])):
            return False
        cf.coords[0, 2] = 42.0 + k                         # a write through the old view arrives in the grown ensemble
        if e.coords[k, 0, 2] != 42.0 + k or e[k].coords[0, 2] != 42.0 + k:
            return False
        e.coords[k, 0, 2] = c0[k, 0, 2]
        if cf.coords[0, 2] != c0[k, 0, 2]:
            return False
    if len(e.dumps_mol2()) == 0 or len(e.dumps_xyz()) == 0:
        return False
    r = mio._deserialize_ens_v2(mio._serialize_ens_v2(e))
    if not (rect(r, n1, na) and real_np.allclose(r.coords, e.coords) and real_np.allclose(r.atomic_charges, e.atomic_charges) and real_np.allclose(r.weights, e.weights)):
        return False
    # the grown ensemble and the objects it grew from are independent: writes on either side stay there
    srcs = [x for x in (m, g) if how in (0, 1, 2, 4)] + ([o] if how in (3, 5) else [])
    snap = [(x.coords.copy(), getattr(x, "atomic_charges", real_np.zeros(1)).copy()) for x in srcs]
    e.scale(2.0)
    for k in range(n1):
        e[k].coords[0, 0] += 1.0
        e[k].atomic_charges[0] += 1.0
    e.translate([0.0, 1.0, 0.0])
    for x, (c_, q_) in zip(srcs, snap):
        if not (real_np.array_equal(x.coords, c_) and real_np.array_equal(getattr(x, "atomic_charges", real_np.zeros(1)), q_)):
            return False
    before = (e.coords.copy(), e.atomic_charges.copy())
    for x in srcs:
        x.coords[...] = -5.0
        if hasattr(x, "atomic_charges"):
            x.atomic_charges[...] = -5.0
    return real_np.array_equal(e.coords, before[0]) and real_np.array_equal(e.atomic_charges, before[1])
    return rect(r, n1, na) and real_np.allclose(r.coords, e.coords) and real_np.allclose(r.atomic_charges, e.atomic_charges) and real_np.allclose(r.weights, e.weights)


ENCODED = ["molli.chem.ensemble.ConformerEnsemble.__init__", "molli.chem.ensemble.ConformerEnsemble.append", "molli.chem.ensemble.ConformerEnsemble.extend",
           "molli.chem.ensemble.ConformerEnsemble.scale", "molli.chem.ensemble.ConformerEnsemble.translate", "molli.chem.ensemble.ConformerEnsemble.rotate",
           "molli.chem.ensemble.ConformerEnsemble.__iter__", "molli.chem.ensemble.ConformerEnsemble.__getitem__", "molli.chem.ensemble.ConformerEnsemble.n_conformers",
           "molli.chem.ensemble.Conformer", "molli.chem.geometry.CartesianGeometry.__init__", "molli.chem.molecule.Molecule.__init__",
           "molli.chem.io._serialize_ens_v2", "molli.chem.io._deserialize_ens_v2"]


def run(rep, tier):
    from engine import xh
    rep.encoded = ENCODED
    rep.models_validated = shapenp.validate()
    rep.bounds = {"shape step": "n_conformers symbolic in [0,1000] (second ensemble likewise), n_atoms in 0..3, conformer indices symbolic; 5 constructor branches x 17 operations, one step from an arbitrary rectangular state",
                  "content": "real numpy, n_conformers <= 3, n_atoms <= 3: write-through (6 kinds), iteration (plain, nested, interleaved, suspended, slices), append/extend then dump + serialise"}
    rep.outside = ["numerical content of arrays under the shape model (content is checked on real numpy with concrete extents only)", "n_atoms > 3", "append/extend of a geometry whose atom count differs from the ensemble's",
                   "sequences of more than one growth step under the shape model (one inductive step; the pre-state is any rectangular state a constructor builds)"]
    rep.assumptions = ["engine/shapenp.py models numpy's shape rules for the calls molli makes (validated against numpy on all shapes with extents <= 2, ranks <= 3, on this run)",
                       "replay of a shape-model counterexample runs the same scenario on real numpy"]
    specs = [{"fn": "h_shape_step", "timeout": 600, "split": o} for o in range(len(OPS))]
    specs += [{"fn": "h_live_views", "timeout": 600}, {"fn": "h_iteration", "timeout": 300}, {"fn": "h_grown_usable", "timeout": 600}]
    xh.run_obligations(rep, "harness.C14", specs)
    xh.known_witness(rep, "harness.C14")
