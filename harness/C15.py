"""C15 — graph queries agree with graph theory (XH: edge bits, start atom, direction, bond under test, elements symbolic) [selector-bound]."""
import os
from collections import deque
from itertools import permutations
from molli.chem import Atom, Bond, BondType, BondStereo, AtomStereo, AtomType, Connectivity, Molecule, ConformerEnsemble, Element

SPLIT = int(os.environ.get("XH_SPLIT", "-1"))
NSPLIT = int(os.environ.get("XH_NSPLIT", "16"))
N = int(os.environ.get("XH_N", "4"))
FULL = os.environ.get("XH_FULL") == "1"
QUICK = os.environ.get("XH_QUICK") == "1"
PAIRS = [(i, j) for i in range(N) for j in range(i + 1, N)]
NP = len(PAIRS)
SB = [bool((max(SPLIT, 0) >> k) & 1) for k in range(4)]
BT = [BondType.Single, BondType.Double, BondType.Triple, BondType.Aromatic, BondType.Amide, BondType.Unknown, BondType.Dummy, BondType.FractionalOrder, BondType.H_Acceptor]
CLS = [Connectivity, Molecule, ConformerEnsemble]


class _Null:
    def __enter__(self):
        return self

    def __exit__(self, *a):
        return False


def untraced():
    """context in which concrete code runs natively (CrossHair's tracer off); a no-op outside CrossHair.  Only used around calls whose
    arguments are fully concrete (menu entries already chosen by the solver): networkx's matcher costs ~2.5 s per path under the tracer"""
    try:
        from crosshair.tracers import NoTracing, is_tracing
        if is_tracing():
            return NoTracing()
    except Exception:
        pass
    return _Null()


def pick(sel, n):
    for i in range(n):
        if sel == i:
            return i
    return 0


def build(cls, bits, n=N, pairs=None, btypes=None, elements=None):
    """graph on n atoms; bits[k] (symbolic bool) decides edge pairs[k].  Returns (object, adjacency lists, edge list)"""
    pairs = PAIRS if pairs is None else pairs
    atoms = [Atom(Element.C if elements is None else elements[i], label=f"a{i}") for i in range(n)]
    c = cls(atoms, n_conformers=1) if cls is ConformerEnsemble else cls(atoms)
    adj = {i: [] for i in range(n)}
    edges = []
    for k, (i, j) in enumerate(pairs):
        if bits[k]:
            c.connect(i, j, btype=(BondType.Single if btypes is None else btypes[k % len(btypes)]))
            adj[i].append(j)
            adj[j].append(i)
            edges.append((i, j))
    return c, adj, edges


def ref_bfs(adj, s, banned=()):
    dist = {s: 0}
    q = deque([s])
    while q:
        u = q.popleft()
        for v in adj[u]:
            if v not in dist and v not in banned:
                dist[v] = dist[u] + 1
                q.append(v)
    return dist


def idx(c, a):
    for i, x in enumerate(c.atoms):
        if x is a:
            return i
    return -1


def h_bfs(e0: bool, e1: bool, e2: bool, e3: bool, e4: bool, e5: bool, e6: bool, e7: bool, e8: bool, e9: bool, start: int, cls_sel: int, by: int) -> bool:
    """
    breadth-first traversal without a direction: every other atom of the component exactly once, non-decreasing, true shortest-path distance;
    yield_bfs gives the same atoms in the same order
    pre: 0 <= start < N and 0 <= cls_sel < len(CLS) and 0 <= by <= 1
    pre: FULL or N <= 4 or (cls_sel == 0 and by == 0)
    pre: SPLIT < 0 or (e0 == SB[0] and e1 == SB[1] and e2 == SB[2] and e3 == SB[3])
    pre: NP >= 10 or not (e6 or e7 or e8 or e9)
    post: _
    """
    bits = [e0, e1, e2, e3, e4, e5, e6, e7, e8, e9][:NP]
    c, adj, edges = build(CLS[pick(cls_sel, len(CLS))], bits)
    s = pick(start, N)
    arg = c.atoms[s] if pick(by, 2) else s
    got = [(idx(c, a), d) for a, d in c.yield_bfsd(arg)]
    ref = ref_bfs(adj, s)
    if sorted(i for i, _ in got) != sorted(k for k in ref if k != s):
        return False
    if any(ref[i] != d for i, d in got):
        return False
    if any(got[k][1] > got[k + 1][1] for k in range(len(got) - 1)):
        return False
    return [idx(c, a) for a in c.yield_bfs(arg)] == [i for i, _ in got]


def h_bfs_dir(e0: bool, e1: bool, e2: bool, e3: bool, e4: bool, e5: bool, e6: bool, e7: bool, e8: bool, e9: bool, start: int, dsel: int, cls_sel: int) -> bool:
    """
    traversal with a direction: exactly the atoms reachable through that neighbour without passing the start, each once, non-decreasing,
    the neighbour itself first at distance 1, distances = 1 + distance from the neighbour in the graph without the start atom
    pre: 0 <= start < N and 0 <= dsel < N - 1 and 0 <= cls_sel < len(CLS)
    pre: SPLIT < 0 or (e0 == SB[0] and e1 == SB[1] and e2 == SB[2] and e3 == SB[3])
    pre: NP >= 10 or not (e6 or e7 or e8 or e9)
    post: _
    """
    bits = [e0, e1, e2, e3, e4, e5, e6, e7, e8, e9][:NP]
    c, adj, edges = build(CLS[pick(cls_sel, len(CLS))], bits)
    s = pick(start, N)
    k = pick(dsel, N - 1)
    if k >= len(adj[s]):
        return True                   # fewer neighbours than the selector: nothing to ask
    d = adj[s][k]
    got = [(idx(c, a), dd) for a, dd in c.yield_bfsd(s, d)]
    ref = ref_bfs(adj, d, banned=(s,))
    if sorted(i for i, _ in got) != sorted(ref):
        return False
    if not got or got[0] != (d, 1):
        return False
    if any(ref[i] + 1 != dd for i, dd in got):
        return False
    if any(got[k][1] > got[k + 1][1] for k in range(len(got) - 1)):
        return False
    return [idx(c, a) for a in c.yield_bfs(c.atoms[s], c.atoms[d])] == [i for i, _ in got]


def h_ring(e0: bool, e1: bool, e2: bool, e3: bool, e4: bool, e5: bool, e6: bool, e7: bool, e8: bool, e9: bool, cls_sel: int) -> bool:
    """
    every bond of the graph: reported in a ring iff it is not a bridge (its end points stay connected when it is removed), in both orientations
    pre: 0 <= cls_sel < len(CLS)
    pre: SPLIT < 0 or (e0 == SB[0] and e1 == SB[1] and e2 == SB[2] and e3 == SB[3])
    pre: NP >= 10 or not (e6 or e7 or e8 or e9)
    pre: FULL or N <= 4 or cls_sel == 0
    post: _
    """
    bits = [e0, e1, e2, e3, e4, e5, e6, e7, e8, e9][:NP]
    c, adj, edges = build(CLS[pick(cls_sel, len(CLS))], bits)
    for b in c.bonds:
        i, j = idx(c, b.a1), idx(c, b.a2)
        adj2 = {u: [v for v in vs if {u, v} != {i, j}] for u, vs in adj.items()}
        bridge = j not in ref_bfs(adj2, i)
        if bool(c.is_bond_in_ring(b)) == bridge:
            return False
        if bool(c.is_bond_in_ring(Bond(b.a2, b.a1))) == bridge:
            return False
    return True


def h_adj(e0: bool, e1: bool, e2: bool, e3: bool, e4: bool, e5: bool, e6: bool, e7: bool, e8: bool, e9: bool, atom: int, t0: int, cls_sel: int) -> bool:
    """
    connected_atoms / bonds_with_atom / n_bonds_with_atom / bonded_valence / lookup_bond of every atom agree with the bond list; bond types symbolic
    pre: 0 <= atom < N and 0 <= t0 < len(BT) and 0 <= cls_sel < len(CLS) and (FULL or (cls_sel <= 1 and t0 <= 2))
    pre: SPLIT < 0 or (e0 == SB[0] and e1 == SB[1] and e2 == SB[2] and e3 == SB[3])
    pre: NP >= 10 or not (e6 or e7 or e8 or e9)
    post: _
    """
    bits = [e0, e1, e2, e3, e4, e5, e6, e7, e8, e9][:NP]
    t0 = pick(t0, len(BT))
    bts = [BT[(t0 + 2 * k) % len(BT)] for k in range(len(BT))]
    c, adj, edges = build(CLS[pick(cls_sel, len(CLS))], bits, btypes=bts)
    a = pick(atom, N)
    at = c.atoms[a]
    inc = [b for b in c.bonds if b.a1 is at or b.a2 is at]                       # the bond list is the reference
    got_b = list(c.bonds_with_atom(a))
    if len(got_b) != len(inc) or any(not any(g is b for g in got_b) for b in inc):
        return False
    got_a = [idx(c, x) for x in c.connected_atoms(at)]
    if sorted(got_a) != sorted(adj[a]) or len(set(got_a)) != len(got_a):
        return False
    if c.n_bonds_with_atom(a) != len(inc):
        return False
    if abs(c.bonded_valence(a) - sum(b.order for b in inc)) > 1e-12:
        return False
    for j in range(N):
        if j != a:
            lb = c.lookup_bond(a, j)
            want = next((b for b in inc if b.a1 is c.atoms[j] or b.a2 is c.atoms[j]), None)
            if (lb is None) != (want is None) or (lb is not None and lb is not want):
                return False
    return True


# ------------------------------------------------------------------------------------------------------------- substructure matching
PATTERNS = [(1, []), (2, [(0, 1)]), (3, [(0, 1), (1, 2)]), (3, [(0, 1), (1, 2), (0, 2)]), (3, [(0, 1), (0, 2)]), (4, [(0, 1), (1, 2), (2, 3)]), (4, [(0, 1), (0, 2), (0, 3)]),
            (4, [(0, 1), (1, 2), (2, 3), (0, 3)])]
EL = [Element.Unknown, Element.C, Element.N]
MBT = [BondType.Single, BondType.Unknown, BondType.Double, BondType.Triple, BondType.Aromatic, BondType.Amide]


def brute(pn, pedges, pel, hn, hadj, hel):
    """all induced embeddings: injective, element-respecting (pattern Unknown = wildcard), bonded <-> bonded"""
    pset = {frozenset(e) for e in pedges}
    out = []
    for m in permutations(range(hn), pn):
        ok = all(pel[i] == Element.Unknown or pel[i] == hel[m[i]] for i in range(pn))
        if ok:
            for i in range(pn):
                for j in range(i + 1, pn):
                    if (frozenset((i, j)) in pset) != (m[j] in hadj[m[i]]):
                        ok = False
        if ok:
            out.append(list(m))
    return out


def h_match_owner(e0: bool, e1: bool, e2: bool, e3: bool, e4: bool, e5: bool, psel: int, owner: int) -> bool:
    """
    the same question on a graph whose atoms are (also) held by another container: owner 0 = two of its atoms were adopted afterwards by another
    Promolecule (their parent / idx now refer to that one); owner 1 = the graph is a Substructure view of a larger Structure.  Indices returned by
    get_substr_indices are positions in the queried graph's own atom list; match() and get_substr_indices agree
    pre: 0 <= psel <= 5 and 0 <= owner <= 1
    pre: SPLIT < 0 or (owner == SPLIT // 3 and psel % 3 == SPLIT % 3)
    post: _
    """
    from molli.chem import Promolecule, Structure, Substructure
    bits = [e0, e1, e2, e3, e4, e5]
    n = 4
    if owner == 0:
        host, hadj, _ = build(Connectivity, bits, n=n)
        other = Promolecule([host.atoms[2], host.atoms[0]])
    else:
        big = Structure([Atom("O", label="x0"), Atom("O", label="x1")] + [Atom("C", label=f"a{i}") for i in range(n)])
        hadj = {i: [] for i in range(n)}
        for k, (i, j) in enumerate(PAIRS[:6]):
            if bits[k]:
                big.connect(i + 2, j + 2)
                hadj[i].append(j)
                hadj[j].append(i)
        big.connect(0, 1)
        host = Substructure(big, big.atoms[2:])
    pn, pedges = PATTERNS[pick(psel, 6)]
    pat = Connectivity([Atom(Element.C, label=f"p{i}") for i in range(pn)])
    for i, j in pedges:
        pat.connect(i, j)
    want = brute(pn, pedges, [Element.C] * pn, n, hadj, [Element.C] * n)
    with untraced():
        got = [list(x) for x in host.get_substr_indices(pat)]
        maps = list(host.match(pat))
    if len(got) != len(want) or len(maps) != len(want):
        return False
    for g in got:
        if g not in want:
            return False
    for w in want:
        if g_count(got, w) != 1:
            return False
    for m in maps:
        if [idx(host, m[a]) for a in pat.atoms] not in want:
            return False
    return True


def h_match(e0: bool, e1: bool, e2: bool, e3: bool, e4: bool, e5: bool, e6: bool, e7: bool, e8: bool, e9: bool, psel: int, p0: int, p1: int, h0: int, h1: int, bt: int, cls_sel: int) -> bool:
    """
    get_substr_indices / match return exactly the induced embeddings (none invalid, none missed, none twice); elements of two pattern and two
    host atoms symbolic over {Unknown, C, N} / {C, N}, one bond type for all bonds of pattern and host
    pre: 0 <= psel < len(PATTERNS) and 0 <= p0 <= 2 and 1 <= p1 <= 2 and 1 <= h0 <= 2 and 1 <= h1 <= 2 and 0 <= bt < len(MBT) and 0 <= cls_sel <= 1
    pre: SPLIT < 0 or (e0 == SB[0] and e1 == SB[1] and e2 == SB[2] and e3 == SB[3])
    pre: NP >= 10 or not (e6 or e7 or e8 or e9)
    pre: bt == 0 or (p0 == 1 and p1 == 1 and h0 == 1 and h1 == 2)
    pre: FULL or (cls_sel == 0 and p1 == 1 and h1 == 2)
    pre: not QUICK or psel <= 5
    post: _
    """
    bits = [e0, e1, e2, e3, e4, e5, e6, e7, e8, e9][:NP]
    t = MBT[pick(bt, len(MBT))]
    hel = [EL[pick(h0, 3)], EL[pick(h1, 3)]] + [Element.C] * (N - 2)
    cls = [Connectivity, Molecule][pick(cls_sel, 2)]
    host, hadj, _ = build(cls, bits, elements=hel, btypes=[t])
    pn, pedges = PATTERNS[pick(psel, len(PATTERNS))]
    if pn > N:
        return True
    pel = ([EL[pick(p0, 3)], EL[pick(p1, 3)]] + [Element.C] * 2)[:pn]
    pat = cls([Atom(pel[i], label=f"p{i}") for i in range(pn)])
    for i, j in pedges:
        pat.connect(i, j, btype=t)
    want = brute(pn, pedges, pel, N, hadj, hel)
    with untraced():
        got = [list(x) for x in host.get_substr_indices(pat)]
        maps = list(host.match(pat))
    if len(got) != len(want):
        return False
    for g in got:
        if g not in want:
            return False
    for w in want:
        if g_count(got, w) != 1:
            return False
    # match(): the same maps as dictionaries pattern atom -> host atom
    if len(maps) != len(want):
        return False
    for m in maps:
        if [idx(host, m[a]) for a in pat.atoms] not in want:
            return False
    return True


def g_count(xs, w):
    return sum(1 for x in xs if x == w)


def h_node_match(el1: int, el2: int, iso1: int, iso2: int, st1: int, st2: int) -> bool:
    """
    _node_match as a pure function over symbolic field values: a pattern atom (a2) with element Unknown matches any element; equal atoms match;
    different known elements never match
    pre: 0 <= el1 <= 118 and 0 <= el2 <= 118 and -1 <= iso1 <= 300 and -1 <= iso2 <= 300 and 0 <= st1 <= 30 and 0 <= st2 <= 30
    post: _
    """
    a1 = {"element": el1, "isotope": None if iso1 < 0 else iso1, "stereo": st1, "atype": 0, "label": "x", "geom": 0}
    a2 = {"element": el2, "isotope": None if iso2 < 0 else iso2, "stereo": st2, "atype": 0, "label": "y", "geom": 0}
    r = Connectivity._node_match(a1, a2)
    if el2 != 0 and el1 != el2 and r:
        return False                       # different known elements must not match
    if iso2 < 0 and st2 == 0 and (el2 == 0 or el1 == el2) and not r:
        return False                       # unconstrained pattern atom of a compatible element must match
    if el1 == el2 and iso1 == iso2 and st1 == st2 and not r:
        return False                       # reflexive
    return True


def h_edge_match(b1: int, b2: int, s1: int, s2: int, l1: int, l2: int) -> bool:
    """
    _edge_match as a pure function over symbolic field values (bond types of the supported vocabulary): reflexive; an Unknown / unlabelled /
    stereo-free pattern bond matches every bond; NotConnected never matches
    pre: 0 <= b1 <= 3 or b1 == 20 or b1 == 21
    pre: 0 <= b2 <= 3 or b2 == 20 or b2 == 21 or b2 == 11
    pre: 0 <= s1 <= 40 and 0 <= s2 <= 40 and 0 <= l1 <= 2 and 0 <= l2 <= 2
    post: _
    """
    lab = [None, "x", "y"]
    e1 = {"btype": b1, "stereo": s1, "label": lab[pick(l1, 3)]}
    e2 = {"btype": b2, "stereo": s2, "label": lab[pick(l2, 3)]}
    r = Connectivity._edge_match(e1, e2)
    if b2 == 11:
        return not r
    if b1 == b2 and s1 == s2 and l1 == l2 and not r:
        return False
    if b2 == 0 and s2 == 0 and l2 == 0 and not r:
        return False
    return True


ENCODED = ["molli.chem.bond.Connectivity.yield_bfsd", "molli.chem.bond.Connectivity.yield_bfs", "molli.chem.bond.Connectivity.is_bond_in_ring", "molli.chem.bond.Connectivity.connected_atoms",
           "molli.chem.bond.Connectivity.bonds_with_atom", "molli.chem.bond.Connectivity.bonded_valence", "molli.chem.bond.Connectivity.n_bonds_with_atom", "molli.chem.bond.Connectivity.lookup_bond",
           "molli.chem.bond.Connectivity.to_nxgraph", "molli.chem.bond.Connectivity._node_match", "molli.chem.bond.Connectivity._edge_match", "molli.chem.bond.Connectivity.match",
           "molli.chem.bond.Connectivity.get_substr_indices", "molli.chem.bond.Bond.order"]


def run(rep, tier):
    from engine import xh
    rep.encoded = ENCODED
    q = tier == "quick"
    n = 4 if q else 5
    ns = 16
    env = {"XH_N": str(n), "XH_NSPLIT": str(ns), "XH_QUICK": "1" if q else "0"}
    rep.bounds = {"graphs": f"every labelled graph on {n} atoms (edge bits symbolic), every start atom, every direction, every bond in both orientations; Connectivity, Molecule and ConformerEnsemble",
                  "matching": f"host = every labelled graph on {n} atoms, 8 connected patterns on 1-4 atoms, elements of two pattern atoms over {{Unknown,C,N}}/{{C,N}} and of two host atoms over {{C,N}}, "
                              "one of 6 bond types shared by all bonds; _node_match / _edge_match additionally as pure functions over symbolic ints (elements 0-118, isotopes, stereo, bond types)",
                  "adjacency": "bond types cycled over the edges from a symbolic offset into 9 types"}
    rep.outside = ["graphs on more than 5 atoms (the exhaustive-to-6 and random-to-40 parts of the quantifier are not reproduced)", "[selector-bound]: the solver enumerates a finite space of graphs",
                   "bond types that _edge_match rejects by design with NotImplementedError (Dummy, FractionalOrder, ...) in patterns", "different bond types on pattern and host (the property states no rule for them)"]
    rep.assumptions = ["pattern element Unknown is the wildcard ('Unknown matches any'); a host atom of Unknown element is only matched by a wildcard"]
    T = 900 if q else 6000
    specs = []
    for fn in ("h_bfs", "h_bfs_dir", "h_ring", "h_adj", "h_match"):
        specs += [{"fn": fn, "timeout": T, "split": s, "env": dict(env, XH_FULL="0" if (q or fn == "h_match") else "1")} for s in range(ns)]
    if q:              # LIFO/FIFO slips and ring-perception slips need 5 atoms to show: plain traversal and ring test on every 5-atom graph already in the quick tier
        specs += [{"fn": fn, "timeout": T, "split": s, "env": {"XH_N": "5", "XH_NSPLIT": str(ns)}} for fn in ("h_bfs", "h_ring") for s in range(ns)]
    if not q:          # thorough: the full element / class product on 4 atoms in addition to the reduced one on 5 atoms
        env4 = {"XH_N": "4", "XH_NSPLIT": str(ns), "XH_FULL": "1"}
        specs += [{"fn": fn, "timeout": T, "split": s, "env": env4} for fn in ("h_match", "h_adj") for s in range(ns)]
    specs += [{"fn": "h_node_match", "timeout": 600}, {"fn": "h_edge_match", "timeout": 600}]
    specs += [{"fn": "h_match_owner", "timeout": 900, "env": {"XH_N": "4"}, "split": sp} for sp in range(6)]
    xh.run_obligations(rep, "harness.C15", specs)


def _warm():
    """networkx compiles its decorated functions lazily with exec(); do that once outside CrossHair's tracer (dicts created under the tracer
    are proxies that exec() refuses)"""
    c, _, _ = build(Connectivity, [True] * NP)
    p = Connectivity([Atom("C"), Atom("C")])
    p.connect(0, 1)
    list(c.get_substr_indices(p))
    list(c.match(p))


_warm()
