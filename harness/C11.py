"""C11 — geometric operations are rigid motions with the documented effect (SR: real functions on z3 Real terms, QF_NRA)."""
import os, json, math
import numpy as np
import z3
import molli.math.rotation as ROT
import molli.chem.structure as STR
from molli.chem import Atom, Structure, Molecule, CartesianGeometry, ConformerEnsemble
from engine import sr
from engine.sr import CTX, SR, vec, mat, sym_angle, det3, E

ORIG_RMFV = ROT.rotation_matrix_from_vectors
ORIG_AXIS = ROT.rotation_matrix_from_axis


class SymStructure(Structure, coords_dtype=object):
    pass


class SymMolecule(Molecule, coords_dtype=object):
    pass


def with_shim(f):
    """run f with molli.math.rotation.math replaced by the exact unit-circle shim"""
    def g(*a, **k):
        saved = ROT.math
        ROT.math = sr.mathshim
        try:
            return f(*a, **k)
        finally:
            ROT.math = saved
    return g


def mk(n, bonds, cls=SymStructure, prefix="p"):
    s = cls([Atom("C") for _ in range(n)], coords=np.array([[SR(z3.Real(f"{prefix}{i}_{k}")) for k in range(3)] for i in range(n)], dtype=object))
    for a, b in bonds:
        s.connect(a, b)
    return s


def d2(c, i, j):
    d = c[i] - c[j]
    return d @ d


def vol(c, i=0, j=1, k=2, l=3):
    return (c[j] - c[i]) @ np.cross(c[k] - c[i], c[l] - c[i])


def eq_goals(name, A, B):
    """entrywise A == B as a list of negated goals"""
    A, B = np.asarray(A, dtype=object), np.asarray(B, dtype=object)
    return [(f"{name}[{idx}]", E(A[idx]) != E(B[idx])) for idx in np.ndindex(A.shape)]


# ------------------------------------------------------------------------------------------------------------------ part 1: axis-angle
@with_shim
def g_axis():
    k = vec("k")
    CTX.assume(E(k @ k) > 0)
    th = sym_angle("th")
    R = ROT.rotation_matrix_from_axis(k, th)
    kn = k / np.linalg.norm(k)
    goals = eq_goals("R Rt = I", R @ R.T, np.eye(3, dtype=int))[:0]
    RRt = R @ R.T
    goals += [(f"R Rt = I[{i}{j}]", E(RRt[i, j]) != (1 if i == j else 0)) for i in range(3) for j in range(i, 3)]
    goals += [("det R = 1", E(det3(R)) != 1)]
    goals += [(f"axis @ R = axis[{j}]", E((kn @ R)[j]) != E(kn[j])) for j in range(3)]
    goals += [("trace = 1 + 2 cos", E(R[0, 0] + R[1, 1] + R[2, 2]) != E(1 + 2 * th.c))]
    goals += [("control: trace = 1 + cos (must be sat)", E(R[0, 0] + R[1, 1] + R[2, 2]) != E(1 + th.c))]
    return goals


def replay_axis(goal, model, path):
    k = np.array([sr.fval(model, f"k{i}") for i in range(3)])
    c, s = sr.fval(model, "th_c", 1.0), sr.fval(model, "th_s")
    ang = math.atan2(s, c)
    R = ORIG_AXIS(k, ang)
    kn = k / np.linalg.norm(k)
    ok = np.allclose(R @ R.T, np.eye(3), atol=1e-6) and abs(np.linalg.det(R) - 1) < 1e-6 and np.allclose(kn @ R, kn, atol=1e-6) and abs(np.trace(R) - 1 - 2 * math.cos(ang)) < 1e-6
    return bool(ok), f"axis={k.tolist()} angle={ang}: R Rt - I max {np.abs(R @ R.T - np.eye(3)).max():.2e}, det {np.linalg.det(R):.6f}, |k R - k| {np.abs(kn @ R - kn).max():.2e}, trace-(1+2cos) {np.trace(R) - 1 - 2 * math.cos(ang):.2e}"


# ------------------------------------------------------------------------------------------------- part 2: vector-to-vector (both branches)
class NPX:
    """numpy with np.random.rand replaced by fresh reals in [0, 1) (the documented contract of the RNG)"""

    def __getattr__(self, n):
        return getattr(np, n)

    class random:
        @staticmethod
        def rand(n):
            k = len([1 for key in CTX.memo if key.startswith("rand")])
            CTX.memo[f"rand{k}"] = True
            v = vec(f"rv{k}_", n)
            for x in v:
                CTX.assume(E(x) >= 0, E(x) < 1)
            return v


CALLS = []


def rmfv_contract(u, v, tol=1.0e-8):
    """assume/guarantee stub of a *recursive* call: returns a fresh matrix M with un @ M == vn (the part of the contract the caller's
    mapping lemma needs) and records the obligation that the call lands in the generic branch"""
    u, v = np.array(u), np.array(v)
    un, vn = u / np.linalg.norm(u), v / np.linalg.norm(v)
    M = mat(f"M{len(CALLS)}_", 3, 3)
    img = un @ M
    for j in range(3):
        CTX.assume(E(img[j]) == E(vn[j]))
    CALLS.append((u, v, M))
    return M


@with_shim
def g_vectors():
    CALLS.clear()
    ROT.np = NPX()
    ROT.rotation_matrix_from_vectors = rmfv_contract
    try:
        a, b = vec("a"), vec("b")
        CTX.assume(E(a @ a) > 0, E(b @ b) > 0)
        R = ORIG_RMFV(a, b)
    finally:
        ROT.np = np
        ROT.rotation_matrix_from_vectors = ORIG_RMFV
    an, bn = a / np.linalg.norm(a), b / np.linalg.norm(b)
    out = an @ R
    goals = []
    if not CALLS:      # generic (Rodrigues) branch: the matrix is fully determined
        goals += [(f"v1n @ R = v2n[{j}]", E(out[j]) != E(bn[j])) for j in range(3)]
        RRt = R @ R.T
        goals += [(f"R Rt = I[{i}{j}]", E(RRt[i, j]) != (1 if i == j else 0)) for i in range(3) for j in range(i, 3)]
        goals += [("det R = 1", E(det3(R)) != 1)]
        goals += [("control: v1n @ R = -v2n (must be sat)", E(out[0]) != -E(bn[0]))]
        # conditioning of the Rodrigues formula: its denominator 1 + c must stay away from zero on this path (the nearly-opposite case belongs to the other
        # branch).  A model of the negation is a pair of nearly opposite vectors; the float64 replay decides whether the rotation is really lost there.
        goals += [("conditioning: 1 + v1n.v2n >= 1e-12 on the Rodrigues path", E(1 + an @ bn) < sr.lift(1e-12))]
    else:              # antiparallel branch: exactly one pass of the loop, result is the product of the two recursive results
        goals += [("antiparallel: exactly two recursive calls", z3.BoolVal(len(CALLS) != 2))]
        P = CALLS[0][2] @ CALLS[1][2]
        goals += [(f"antiparallel: R = M1 @ M2[{i}{j}]", E(R[i, j]) != E(P[i, j])) for i in range(3) for j in range(3)]
        goals += [("antiparallel: first call maps v1 to the auxiliary vector, second maps it to v2",
                   z3.Or(*[E(CALLS[0][1][j]) != E(CALLS[1][0][j]) for j in range(3)]))]
    return goals


def replay_vectors(goal, model, path):
    a = np.array([sr.fval(model, f"a{i}") for i in range(3)])
    b = np.array([sr.fval(model, f"b{i}") for i in range(3)])
    R = ORIG_RMFV(a, b)
    an, bn = a / np.linalg.norm(a), b / np.linalg.norm(b)
    ok = np.allclose(an @ R, bn, atol=1e-6) and np.allclose(R @ R.T, np.eye(3), atol=1e-6) and abs(np.linalg.det(R) - 1) < 1e-6
    return bool(ok), f"v1={a.tolist()} v2={b.tolist()}: |v1n R - v2n| {np.abs(an @ R - bn).max():.2e}, |R Rt - I| {np.abs(R @ R.T - np.eye(3)).max():.2e}, det {np.linalg.det(R):.6f}"


@with_shim
def g_so3_product():
    """lemma (d): the product of two proper rotations (axis-angle parametrised, molli's own constructor) is a proper rotation"""
    k1, k2 = vec("k"), vec("m")
    CTX.assume(E(k1 @ k1) > 0, E(k2 @ k2) > 0)
    A = ROT.rotation_matrix_from_axis(k1, sym_angle("al"))
    B = ROT.rotation_matrix_from_axis(k2, sym_angle("be"))
    # abstract the entries: only orthogonality and determinant of the factors are needed
    MA, MB = mat("A", 3, 3), mat("B", 3, 3)
    for M in (MA, MB):
        MMt = M @ M.T
        for i in range(3):
            for j in range(i, 3):
                CTX.assume(E(MMt[i, j]) == (1 if i == j else 0))
        CTX.assume(E(det3(M)) == 1)
    P = MA @ MB
    PPt = P @ P.T
    goals = [(f"(AB)(AB)t = I[{i}{j}]", E(PPt[i, j]) != (1 if i == j else 0)) for i in range(3) for j in range(i, 3)]
    return goals


@with_shim
def g_map_chain():
    """lemma (c): un @ M1 == on and on @ M2 == vn  imply  un @ (M1 @ M2) == vn (vectors abstracted to fresh variables)"""
    u, o, v = vec("u"), vec("o"), vec("v")
    M1, M2 = mat("P", 3, 3), mat("Q", 3, 3)
    for j in range(3):
        CTX.assume(E((u @ M1)[j]) == E(o[j]), E((o @ M2)[j]) == E(v[j]))
    out = u @ (M1 @ M2)
    return [(f"chain[{j}]", E(out[j]) != E(v[j])) for j in range(3)]


# ------------------------------------------------------------------------------------------------------- part 3: rigid motions on geometries
def g_rigid(kind):
    @with_shim
    def f():
        s = mk(4, [(0, 1), (1, 2), (2, 3)])
        before = s.coords.copy()
        goals = []
        if kind == "translate":
            t = vec("t")
            s.translate(t)
            after = s.coords
            goals += [(f"translate: atom {i} moved by t[{k}]", E(after[i][k]) != E(before[i][k]) + E(t[k])) for i in (0, 3) for k in range(3)]
        elif kind == "transform":
            k = vec("k")
            CTX.assume(E(k @ k) > 0)
            s.transform(ROT.rotation_matrix_from_axis(k, sym_angle("th")))
            after = s.coords
        elif kind == "substructure":
            t = vec("t")
            sub = s.substructure([2, 3])
            sub.translate(t)
            after = s.coords
            goals += [(f"substructure: unselected atom {i} unchanged[{k}]", E(after[i][k]) != E(before[i][k])) for i in (0, 1) for k in range(3)]
            goals += [(f"substructure: selected atom {i} moved[{k}]", E(after[i][k]) != E(before[i][k]) + E(t[k])) for i in (2, 3) for k in range(3)]
            goals += [("substructure: selected part rigid", E(d2(after, 2, 3)) != E(d2(before, 2, 3)))]
            return goals
        elif kind == "substructure-rotate":
            k = vec("k")
            CTX.assume(E(k @ k) > 0)
            sub = s.substructure([1, 2, 3])
            sub.transform(ROT.rotation_matrix_from_axis(k, sym_angle("th")))
            after = s.coords
            goals += [(f"substructure-rotate: unselected atom unchanged[{k_}]", E(after[0][k_]) != E(before[0][k_])) for k_ in range(3)]
            goals += [(f"substructure-rotate: d{i}{j} kept", E(d2(after, i, j)) != E(d2(before, i, j))) for i, j in ((1, 2), (1, 3), (2, 3))]
            return goals
        goals += [(f"{kind}: distance {i}-{j} kept", E(d2(after, i, j)) != E(d2(before, i, j))) for i, j in ((0, 1), (0, 2), (0, 3), (1, 3), (2, 3))]
        goals += [(f"{kind}: signed volume kept", E(vol(after)) != E(vol(before)))]
        goals += [(f"control: {kind} leaves atom 0 in place (must be sat)", E(after[0][0]) != E(before[0][0]))]
        return goals
    return f


def _sub_ops(s, kind, edit, arg):
    """the history itself, shared by the symbolic run and the float64 replay"""
    atoms = list(s.atoms)
    sel = [atoms[2], atoms[3]]
    sub = s.substructure(sel)
    if kind != "fresh":
        _ = sub.coords
        _ = repr(sub.parent_atom_indices)
    if kind == "del-below":
        s.del_atom(atoms[0])
    elif kind == "del-above":
        s.del_atom(atoms[4])
    elif kind == "del-between":
        s.del_atom(atoms[1])
    elif kind == "two-dels":
        s.del_atom(atoms[0])
        _ = sub.coords
        s.del_atom(atoms[1])
    before = {id(a): s.coords[i].copy() for i, a in enumerate(s.atoms)}
    if edit == "translate":
        sub.translate(arg)
    else:
        sub.transform(arg)
    return atoms, sel, before


def g_sub_history(kind, edit):
    """a Substructure that outlives edits of its parent: created, used once (so that anything cached is cached), then the parent changes, then
    the substructure is edited: exactly the selected atoms (followed by identity) move"""
    @with_shim
    def f():
        s = mk(5, [(0, 1), (1, 2), (2, 3), (3, 4)])
        if edit == "translate":
            t = arg = vec("t")
        else:
            k = vec("k")
            CTX.assume(E(k @ k) > 0)
            arg = ROT.rotation_matrix_from_axis(k, sym_angle("th"))
        atoms, sel, before = _sub_ops(s, kind, edit, arg)
        goals = []
        for i, a in enumerate(s.atoms):
            b, c = before[id(a)], s.coords[i]
            name = f"atom{atoms.index(a)}"
            if any(a is x for x in sel):
                if edit == "translate":
                    goals += [(f"sub-history {kind}: selected {name} moved by t[{j}]", E(c[j]) != E(b[j]) + E(t[j])) for j in range(3)]
            else:
                goals += [(f"sub-history {kind}: unselected {name} unchanged[{j}]", E(c[j]) != E(b[j])) for j in range(3)]
        i2, i3 = [next(i for i, a in enumerate(s.atoms) if a is x) for x in sel]
        bd = before[id(sel[0])] - before[id(sel[1])]
        goals += [(f"sub-history {kind}: selected part rigid", E(d2(s.coords, i2, i3)) != E(bd @ bd))]
        return goals
    return f


def replay_sub_history(kind, edit):
    def rp(goal, model, path):
        C = np.array([[sr.fval(model, f"p{i}_{k}") for k in range(3)] for i in range(5)], dtype=float)
        s = Structure([Atom("C") for _ in range(5)], coords=C)
        for a, b in [(0, 1), (1, 2), (2, 3), (3, 4)]:
            s.connect(a, b)
        if edit == "translate":
            arg = np.array([sr.fval(model, f"t{i}", 1.0 + i) for i in range(3)])
            if not np.any(arg):
                arg = np.array([1.0, 2.0, 3.0])
        else:
            k = np.array([sr.fval(model, f"k{i}") for i in range(3)])
            arg = ORIG_AXIS(k if np.any(k) else np.array([0.0, 0.0, 1.0]), math.atan2(sr.fval(model, "th_s", 1.0), sr.fval(model, "th_c")))
        try:
            atoms, sel, before = _sub_ops(s, kind, edit, arg)
        except Exception as e:
            return False, f"history '{kind}' then {edit} on a Substructure of atoms 2,3 raised {type(e).__name__}: {e}"
        probs = []
        for i, a in enumerate(s.atoms):
            moved = not np.allclose(s.coords[i], before[id(a)], atol=1e-9)
            selected = any(a is x for x in sel)
            if moved != selected and (selected or moved):
                probs.append(f"atom{atoms.index(a)} {'moved' if moved else 'did not move'} but is {'selected' if selected else 'not selected'}")
        return (not probs), f"history '{kind}' then {edit} on a Substructure of atoms 2,3: " + ("; ".join(probs) or "exactly the selected atoms moved") + f"; coords {C.tolist()}"
    return rp


def g_ensemble(kind):
    @with_shim
    def f():
        class SymEns(ConformerEnsemble):
            pass
        e = ConformerEnsemble([Atom("C") for _ in range(3)], n_conformers=2)
        e._coords = np.array([[[SR(z3.Real(f"c{c}_{i}_{k}")) for k in range(3)] for i in range(3)] for c in range(2)], dtype=object)
        before = e._coords.copy()
        goals = []
        if kind == "translate-1d":
            t = vec("t")
            e.translate(t)
            exp = [[before[c][i] + t for i in range(3)] for c in range(2)]
        elif kind == "translate-2d":
            T = mat("T", 2, 3)
            e.translate(T)
            exp = [[before[c][i] + T[c] for i in range(3)] for c in range(2)]
        elif kind == "rotate":
            k = vec("k")
            CTX.assume(E(k @ k) > 0)
            e.rotate(ROT.rotation_matrix_from_axis(k, sym_angle("th")))
            exp = None
        elif kind == "center_at_atom":
            e.center_at_atom(e.atoms[1])
            exp = [[before[c][i] - before[c][1] for i in range(3)] for c in range(2)]
        else:
            e.center_at_core([0, 2])
            exp = [[before[c][i] - (before[c][0] + before[c][2]) / 2 for i in range(3)] for c in range(2)]
        after = e._coords
        for c in range(2):
            goals += [(f"ens {kind}: conformer {c} distance {i}-{j} kept", E(d2(after[c], i, j)) != E(d2(before[c], i, j))) for i, j in ((0, 1), (0, 2), (1, 2))]
            if exp is not None:
                goals += [(f"ens {kind}: conformer {c} atom {i} at the documented place[{k}]", E(after[c][i][k]) != E(exp[c][i][k])) for i in (0, 2) for k in range(3)]
        return goals
    return f


def replay_generic(goal, model, path):
    return None, "algebraic goal over the real geometry methods; model: " + json.dumps({k: model[k] for k in list(model)[:8]})


# ------------------------------------------------------------------------------------------------------------------ part 4: rotate_dihedral
_raw_arctan2 = SR.arctan2


def _arctan2_raw(y, x):
    a = _raw_arctan2(y, x)
    a.rawx = x if isinstance(x, SR) else SR(sr.lift(x))
    a.rawy = y
    return a


def g_dihedral(free_a0):
    @with_shim
    def f():
        SR.arctan2 = _arctan2_raw
        saved = STR.rotation_matrix_from_axis if hasattr(STR, "rotation_matrix_from_axis") else None
        try:
            Z = SR(z3.RealVal(0))
            d = sr.sym("d")
            CTX.assume(E(d) > 0)
            x0, y0, z0 = sr.sym("x0"), (sr.sym("y0") if free_a0 else Z), sr.sym("z0")
            x3, y3, z3_ = sr.sym("x3"), sr.sym("y3"), sr.sym("z3")
            x4, y4, z4 = sr.sym("x4"), sr.sym("y4"), sr.sym("z4")
            C = np.array([[x0, y0, z0], [Z, Z, Z], [Z, Z, d], [x3, y3, z3_], [x4, y4, z4]], dtype=object)
            s = SymStructure([Atom("C") for _ in range(5)], coords=C)
            for a, b in [(0, 1), (1, 2), (2, 3), (3, 4)]:
                s.connect(a, b)
            CTX.assume(E(x0 * x0 + y0 * y0) > 0, E(x3 * x3 + y3 * y3) > 0)       # a0 and a3 off the rotation axis: the dihedral is defined
            before = s.coords.copy()
            tgt = sym_angle("tgt")
            s.rotate_dihedral((0, 1, 2, 3), tgt)
            after = s.coords
            # the dihedral of the new coordinates by its definition, computed here (not by the function under analysis): the angle whose
            # (sine, cosine) is a positive multiple of (|u2| u1.(u2 x u3), (u1 x u2).(u2 x u3))
            def raw_dihedral(cc):
                u1, u2, u3 = cc[1] - cc[0], cc[2] - cc[1], cc[3] - cc[2]
                return np.linalg.norm(u2) * (u1 @ np.cross(u2, u3)), np.cross(u1, u2) @ np.cross(u2, u3)
            Y, X = raw_dihedral(after)
            goals = [("dihedral: sin(new) cos(target) = cos(new) sin(target)", E(Y * tgt.c - X * tgt.s) != 0),
                     ("dihedral: new angle on the target's half-line", E(X * tgt.c + Y * tgt.s) <= 0)]
            # and dihedral() itself reports that angle, before and after the move (also for flat arrangements, where the sine is exactly 0)
            for nm, cc in (("before", before), ("after", after)):
                s2 = SymStructure([Atom("C") for _ in range(5)], coords=np.array(cc, dtype=object))
                rep_ = sr.as_angle(s2.dihedral(0, 1, 2, 3))
                y_, x_ = raw_dihedral(cc)
                goals += [(f"dihedral() of the coordinates {nm} the move: sine and cosine proportional to the definition", E(y_ * rep_.c - x_ * rep_.s) != 0),
                          (f"dihedral() of the coordinates {nm} the move: on the definition's half-line", E(x_ * rep_.c + y_ * rep_.s) <= 0)]
            goals += [(f"dihedral: fixed side atom {i} unchanged[{k}]", E(after[i][k]) != E(before[i][k])) for i in (0, 1, 2) for k in range(3)]
            goals += [(f"dihedral: moved side rigid d{i}{j}", E(d2(after, i, j)) != E(d2(before, i, j))) for i, j in ((2, 3), (3, 4), (2, 4), (1, 3))]
            goals += [("dihedral: handedness of (1,2,3,4) kept", E(vol(after, 1, 2, 3, 4)) != E(vol(before, 1, 2, 3, 4)))]
            return goals
        finally:
            SR.arctan2 = _raw_arctan2
    return f


def replay_dihedral(goal, model, path):
    g = lambda n: sr.fval(model, n)
    C = np.array([[g("x0"), g("y0"), g("z0")], [0, 0, 0], [0, 0, g("d")], [g("x3"), g("y3"), g("z3")], [g("x4"), g("y4"), g("z4")]], dtype=float)
    s = Structure([Atom("C") for _ in range(5)], coords=C)
    for a, b in [(0, 1), (1, 2), (2, 3), (3, 4)]:
        s.connect(a, b)
    tgt = math.atan2(g("tgt_s"), sr.fval(model, "tgt_c", 1.0))
    def true_dihedral(cc):
        u1, u2, u3 = cc[1] - cc[0], cc[2] - cc[1], cc[3] - cc[2]
        return math.atan2(np.linalg.norm(u2) * (u1 @ np.cross(u2, u3)), np.cross(u1, u2) @ np.cross(u2, u3))
    before = float(s.dihedral(0, 1, 2, 3))
    rep_before = abs(math.atan2(math.sin(before - true_dihedral(C)), math.cos(before - true_dihedral(C)))) < 1e-6
    s.rotate_dihedral((0, 1, 2, 3), tgt)
    after = true_dihedral(s.coords)
    rep_after = abs(math.atan2(math.sin(float(s.dihedral(0, 1, 2, 3)) - after), math.cos(float(s.dihedral(0, 1, 2, 3)) - after))) < 1e-6
    diff = math.atan2(math.sin(after - tgt), math.cos(after - tgt))
    fixed = np.allclose(s.coords[:3], C[:3], atol=1e-8)
    rigid = abs(np.linalg.norm(s.coords[3] - s.coords[4]) - np.linalg.norm(C[3] - C[4])) < 1e-6
    ok = abs(diff) < 1e-6 and fixed and rigid and rep_before and rep_after
    return bool(ok), (f"dihedral() before {before:.6f} (agrees with the definition: {rep_before}), target {tgt:.6f}, dihedral by definition after rotate_dihedral {after:.6f} (difference {diff:.2e}; "
                      f"dihedral() agrees: {rep_after}); fixed side unchanged: {fixed}; moved side rigid: {rigid}; coords {C.tolist()}")


ENCODED = ["molli.math.rotation.rotation_matrix_from_axis", "molli.math.rotation.rotation_matrix_from_vectors", "molli.chem.geometry.CartesianGeometry.translate",
           "molli.chem.geometry.CartesianGeometry.transform", "molli.chem.geometry.CartesianGeometry.dihedral", "molli.chem.geometry.CartesianGeometry.vector",
           "molli.chem.structure.Structure.rotate_dihedral", "molli.chem.structure.Structure.substructure", "molli.chem.structure.Substructure.coords",
           "molli.chem.ensemble.ConformerEnsemble.translate", "molli.chem.ensemble.ConformerEnsemble.rotate", "molli.chem.ensemble.ConformerEnsemble.center_at_atom",
           "molli.chem.ensemble.ConformerEnsemble.center_at_core"]


def run(rep, tier):
    rep.encoded = ENCODED
    rep.extra["module"] = "harness.C11"
    q = tier == "quick"
    T = 150 if q else 600
    rep.bounds = {"reals": "all real inputs (vectors, axes, unit-circle angles, coordinates) satisfying the stated non-degeneracy assumptions; QF_NRA, per-component goals",
                  "atoms": "4-5 atoms, 2 conformers x 3 atoms", "substructure histories": "a 2-atom Substructure of a 5-atom chain, used once, then 0-2 parent atoms deleted below / between / above the selection, then translated / rotated", "path depth": "<= 6 feasible branch-decision vectors per function", "query cap": f"{T} s hard kill",
                  "dihedral pose": "atoms[1] at the origin, atoms[2] on +z (a rigid pose normalisation), all other coordinates free" + ("; atom 0 in the xz-plane in the quick tier" if q else "")}
    rep.outside = ["lemma (d) of the antiparallel chain (product of two rotations is a rotation): undecided by nlsat within 600 s, not claimed", "floating-point neighbourhood behaviour (v2 within 1e-3..1e-12 of -v1): reals, not floats",
                   "antiparallel branch lemma (e): each recursive call lands in the generic branch (needs Cauchy-Schwarz; did not terminate) — NOT claimed; the branch is covered by lemmas (a) one loop pass, (b) result = M1 @ M2, (c) mapping chain, (d) SO(3) closed under product",
                   "alignment (align_to_ref_coords: scipy/rmsd Kabsch code is external numeric code): 'returns the RMSD it achieved' and pose independence are NOT claimed",
                   "more than 5 atoms; every rotatable bond of test molecules"]
    rep.assumptions = ["sqrt / reciprocal / sin / cos are exact: fresh variables with defining equations (hash-consed), angles are points on the unit circle",
                       "np.random.rand returns three reals in [0,1); a recursive rotation_matrix_from_vectors call is replaced by its mapping contract (assume/guarantee)"]
    jobs = [("axis", g_axis, replay_axis, 4), ("vectors", g_vectors, replay_vectors, 6), ("map-chain", g_map_chain, None, 2)]
    jobs += [(f"rigid-{k}", g_rigid(k), None, 2) for k in ("translate", "transform", "substructure", "substructure-rotate")]
    jobs += [(f"ens-{k}", g_ensemble(k), None, 2) for k in ("translate-1d", "translate-2d", "rotate", "center_at_atom", "center_at_core")]
    jobs += [(f"sub-history-{k}-{e}", g_sub_history(k, e), replay_sub_history(k, e), 2) for k in ("fresh", "del-below", "del-above", "del-between", "two-dels") for e in (("translate",) if q else ("translate", "rotate"))]
    jobs += [("dihedral", g_dihedral(False), replay_dihedral, 128)]
    if not q:
        # (lemma (d), 'the product of two axis-angle rotations is a rotation', left nlsat undecided after 600 s per entry on a loaded machine: not claimed, not run)
        jobs += [("dihedral-free", g_dihedral(True), replay_dihedral, 128)]
    allpaths = []
    for label, fn, rp, mp_ in jobs:
        try:
            paths = sr.explore(fn, max_paths=mp_)
        except sr.PathBound as e:
            from engine.common import Obligation
            rep.add(Obligation(name=f"{label}/explore", engine="SR", status="inconclusive", detail=str(e)))
            continue
        allpaths.append((label, paths, rp))
        rep.samples.append({"function": label, "feasible_paths": [p["decisions"] for p in paths], "goals_per_path": [len(p["goals"]) for p in paths]})
    for label, paths, rp in allpaths:
        ctrl = tuple(g[0] for p in paths for g in p["goals"] if g[0].startswith("control:"))
        # 'defined#k' (every denominator / sqrt argument admissible on the path) is asked everywhere except on the antiparallel path of
        # rotation_matrix_from_vectors, whose auxiliary-vector construction is covered by lemmas instead (see outside_claim)
        if label == "vectors":
            for p in paths:
                sr.discharge(rep, label, [p], timeout=T, replay=rp or replay_generic, expect_sat=ctrl, denominators=not any(g[0].startswith("antiparallel") for g in p["goals"]))
        else:
            # definedness of every division / square root is asked on the pose with a0 in the xz-plane ('dihedral'); with a0 free the same obligations
            # did not decide within the time limit and are not repeated
            sr.discharge(rep, label, paths, timeout=T, replay=rp or replay_generic, expect_sat=ctrl, denominators=(label != "dihedral-free"))


def replay(d):
    fn = {"axis": replay_axis, "vectors": replay_vectors, "dihedral": replay_dihedral, "dihedral-free": replay_dihedral}.get(d["label"])
    if d["label"].startswith("sub-history-"):
        _, _, rest = d["label"].partition("sub-history-")
        kind, _, edit = rest.rpartition("-")
        fn = replay_sub_history(kind, edit)
    if fn is None:
        return True, "no numeric replay for this goal family"
    ok, detail = fn(d["goal"], d["model"], None)
    return ok, detail
