"""C05 — atoms, bonds, coordinates and charges stay aligned under every edit history (XH, [selector-bound])."""
import os
import numpy as np
from molli.chem import Atom, Bond, Molecule, Structure, Element, AtomType
from engine.common import known_predicates

SPLIT = int(os.environ.get("XH_SPLIT", "-1"))
NSPLIT = int(os.environ.get("XH_NSPLIT", "16"))
QUICK = os.environ.get("XH_THOROUGH") != "1" and os.environ.get("XH_REPLAY") != "1"
KF = set(known_predicates("C05"))

MOL2 = """@<TRIPOS>MOLECULE
tmpl
5 4 0 0 0
SMALL
USER_CHARGES

@<TRIPOS>ATOM
      1 CA          0.0000    0.0000    0.0000 C.3     1  UNL1        0.1000
      2 CB          1.5000    0.0000    0.0000 C.3     1  UNL1        0.2000
      3 OX          2.1000    1.2000    0.0000 O.3     1  UNL1       -0.3000
      4 HA         -0.5000    0.9000    0.0000 H       1  UNL1        0.0400
      5 HB          1.9000   -0.9000    0.3000 H       1  UNL1        0.0500
@<TRIPOS>BOND
     1     1     2    1
     2     2     3    1
     3     1     4    1
     4     2     5    1
"""


class Ref:
    """reference model keyed by atom identity"""

    def __init__(self, m, has_q):
        self.has_q = has_q
        self.atoms = list(m.atoms)
        self.xyz = {id(a): tuple(float(x) for x in m.coords[i]) for i, a in enumerate(m.atoms)}
        self.q = {id(a): (float(m.atomic_charges[i]) if has_q else None) for i, a in enumerate(m.atoms)}
        self.bonds = list(m.bonds)
        self.n_new = 0
        self.deleted = []          # atoms removed earlier in the history (stale references a caller may still hold)

    def bonds_of(self, a):
        return [b for b in self.bonds if b.a1 is a or b.a2 is a]


def start(kind, cls):
    if kind == 0:
        return cls()
    m = cls.loads_mol2(MOL2)
    if kind == 2:
        src = m
        m = cls(src)
        m.coords = src.coords
        if cls is Molecule:
            m.atomic_charges = src.atomic_charges
    return m


def moves(m, ref, subset):
    """all concrete edit operations applicable in this state: (name, a, b)"""
    n = len(ref.atoms)
    mv = [("add_q", 0, 0), ("add_noq", 0, 0), ("new_atom", 0, 0)]
    mv += [("del_obj", i, 0) for i in range(n)]
    mv += [("del_idx", i, 0) for i in range(-2, n + 2)]
    if ref.deleted and n:
        mv += [("connect_stale", 0, 0), ("connect_stale", n - 1, 1), ("del_stale", 0, 0)]
    if subset:
        return mv
    mv += [("del_label", i, 0) for i in range(n)]
    mv += [("del_elem", i, 0) for i in range(n)]
    mv += [("connect", i, j) for i in range(n) for j in range(i + 1, n)]
    mv += [("append_bond", i, j) for i in range(n) for j in range(i + 1, n) if (i + j) % 2 == 1]
    mv += [("append_foreign", i, 0) for i in range(min(n, 2))]
    mv += [("del_bond", k, 0) for k in range(len(ref.bonds))]
    for k, b in enumerate(ref.bonds):
        mv += [("rm_subst", k, 0), ("rm_subst", k, 1), ("rm_subst_idx", k, 0), ("rm_subst_idx", k, 1)]
    mv += [("hadd", 0, 0)]
    return mv


def kf_append_foreign(name):
    """known finding: append_bond with an atom that is not in the molecule adopts it without a coordinate row / charge"""
    return name == "append_foreign"


def reach(ref, a1, a2):
    """atoms reachable from a1 through a2 without passing a1 (reference BFS); None if a2 side contains a ring back to a1"""
    seen = [a2]
    todo = [a2]
    while todo:
        x = todo.pop(0)
        for b in ref.bonds_of(x):
            y = b.a2 if b.a1 is x else b.a1
            if y is a1:
                if x is not a2:
                    return None
                continue
            if not any(y is s for s in seen):
                seen.append(y)
                todo.append(y)
    return seen


def apply(m, ref, mv):
    """apply the move to the molecule and to the reference; returns False if the molecule misbehaves at once"""
    name, a, b = mv
    n = len(ref.atoms)
    tag = 100.0 + ref.n_new
    ref.n_new += 1
    if name in ("add_q", "add_noq", "new_atom"):
        xyz = (tag, tag + 0.25, -tag)
        if name == "add_q":
            at = Atom("F", label=f"F{int(tag)}")
            m.add_atom(at, list(xyz), tag / 1000) if ref.has_q else m.add_atom(at, list(xyz))
            q = tag / 1000
        elif name == "add_noq":
            at = Atom("F", label=f"G{int(tag)}")
            m.add_atom(at, list(xyz))
            q = "numeric"
        else:
            at = m.new_atom("Cl", coord=list(xyz), label=f"N{int(tag)}")
            q = "numeric"
        ref.atoms.append(at)
        ref.xyz[id(at)] = xyz
        ref.q[id(at)] = q if ref.has_q else None
        return True
    if name.startswith("del_") and name != "del_bond":
        target = None
        arg = None
        if name == "del_obj":
            target = ref.atoms[a]
            arg = target
        elif name == "del_idx":
            arg = a
            target = ref.atoms[a] if 0 <= a < n else None        # negative / out-of-range indices must be refused (or act like python)
        elif name == "del_label":
            arg = ref.atoms[a].label
            if arg is None:
                return True
            target = next(x for x in ref.atoms if x.label == arg)
        elif name == "del_elem":
            arg = ref.atoms[a].element
            target = next(x for x in ref.atoms if x.element == arg)
        try:
            m.del_atom(arg)
        except (ValueError, IndexError, StopIteration):
            return target is None or name == "del_idx" and not (0 <= a < n)
        if target is None:
            # python-style negative index accepted: then it must have deleted exactly that atom, consistently
            if name == "del_idx" and -n <= a < 0:
                target = ref.atoms[a]
            else:
                return False
        dead = ref.bonds_of(target)
        ref.bonds = [x for x in ref.bonds if not any(x is d for d in dead)]
        ref.atoms.remove(target)
        ref.deleted.append(target)
        return True
    if name in ("connect_stale", "del_stale"):
        # a reference to an atom deleted earlier: the call may only fail; whatever it does, the molecule must stay aligned
        stale = ref.deleted[0]
        try:
            if name == "del_stale":
                m.del_atom(stale)
            elif b == 0:
                m.connect(ref.atoms[a], stale)
            else:
                m.connect(stale, ref.atoms[a])
        except (ValueError, IndexError):
            pass
        return True
    if name == "connect":
        bd = m.connect(ref.atoms[a], ref.atoms[b])
        ref.bonds.append(bd)
        return True
    if name == "append_bond":
        bd = Bond(ref.atoms[a], ref.atoms[b], btype=2)
        m.append_bond(bd)
        ref.bonds.append(bd)
        return True
    if name == "append_foreign":
        f = Atom("Br", label="foreign")
        bd = Bond(ref.atoms[a], f)
        m.append_bond(bd)
        ref.bonds.append(bd)
        ref.atoms.append(f)
        ref.xyz[id(f)] = "any"
        ref.q[id(f)] = "numeric" if ref.has_q else None
        return True
    if name == "del_bond":
        bd = ref.bonds[a]
        m.del_bond(bd)
        # which of several parallel bonds between the same two atoms goes is not fixed by the property: exactly one bond joining that pair
        # must have left the bond list (identity, not Bond.__eq__, which compares the atom pair)
        same_pair = [x for x in ref.bonds if (x.a1 is bd.a1 and x.a2 is bd.a2) or (x.a1 is bd.a2 and x.a2 is bd.a1)]
        gone = [x for x in same_pair if not any(x is y for y in m.bonds)]
        if len(gone) != 1:
            return False
        ref.bonds = [x for x in ref.bonds if x is not gone[0]]
        return True
    if name in ("rm_subst", "rm_subst_idx"):
        bd = ref.bonds[a]
        a1, a2 = (bd.a1, bd.a2) if b == 0 else (bd.a2, bd.a1)
        gone = reach(ref, a1, a2)
        if gone is None:
            return True                       # ring: outside remove_substituent's contract
        c2 = ref.xyz[id(a2)]
        if name == "rm_subst":
            m.remove_substituent(a1, a2)
        else:
            m.remove_substituent(ref.atoms.index(a1), ref.atoms.index(a2))
        for g in gone:
            dead = ref.bonds_of(g)
            ref.bonds = [x for x in ref.bonds if not any(x is d for d in dead)]
            ref.atoms.remove(g)
            ref.deleted.append(g)
        ap = m.atoms[-1]
        if not (ap.atype == AtomType.AttachmentPoint and ap.element == Element.Unknown):
            return False
        ref.atoms.append(ap)
        ref.xyz[id(ap)] = c2
        ref.q[id(ap)] = "numeric" if ref.has_q else None
        nb = [x for x in m.bonds if (x.a1 is ap or x.a2 is ap)]
        if len(nb) != 1 or not ((nb[0].a1 is a1) or (nb[0].a2 is a1)):
            return False
        ref.bonds.append(nb[0])
        return True
    if name == "hadd":
        before = len(m.atoms)
        try:
            m.add_implicit_hydrogens()
        except Exception:
            raise
        for at in m.atoms[before:]:
            ref.atoms.append(at)
            ref.xyz[id(at)] = "any"
            ref.q[id(at)] = "numeric" if ref.has_q else None
        for bd in m.bonds:
            if not any(bd is x for x in ref.bonds):
                if not (any(bd.a1 is x for x in m.atoms[before:]) or any(bd.a2 is x for x in m.atoms[before:])):
                    return False
                ref.bonds.append(bd)
        return True
    raise AssertionError(name)


def aligned(m, ref):
    n = len(ref.atoms)
    if len(m.atoms) != n or m.n_atoms != n:
        return False
    for x, y in zip(m.atoms, ref.atoms):
        if x is not y:
            return False
    c = np.asarray(m.coords)
    if c.shape != (n, 3) or c.dtype.kind not in "fiu":
        return False
    if ref.has_q:
        q = np.asarray(m.atomic_charges)
        if q.shape != (n,) or q.dtype.kind not in "fiu":
            return False
    for i, a in enumerate(ref.atoms):
        want = ref.xyz[id(a)]
        if want != "any" and tuple(float(v) for v in c[i]) != want:
            return False
        if ref.has_q:
            wq = ref.q[id(a)]
            if wq != "numeric" and float(q[i]) != wq:
                return False
        if a.parent is not m or a.idx != i or m.get_atom_index(a) != i:
            return False
    if len(m.bonds) != len(ref.bonds):
        return False
    for bd in m.bonds:
        if not any(bd is x for x in ref.bonds) or bd.parent is not m:
            return False
        if not any(bd.a1 is x for x in ref.atoms) or not any(bd.a2 is x for x in ref.atoms):
            return False
    return True


def pick(sel, n):
    """concretise a symbolic selector (CrossHair forks once per value)"""
    for i in range(n):
        if sel == i:
            return i
    return None


def _history(cls, kind, sels, subset, part):
    m = start(kind, cls)
    ref = Ref(m, cls is Molecule)
    if not aligned(m, ref):
        return False
    for step, s in enumerate(sels):
        mv = moves(m, ref, subset)
        i = pick(s, len(mv))
        if i is None:
            return True
        if step == 0 and part >= 0 and i % NSPLIT != part:
            return True
        if "kf_append_foreign" in KF and kf_append_foreign(mv[i][0]):
            return True
        if not apply(m, ref, mv[i]):
            return False
        if not aligned(m, ref):
            return False
    return True


def h_edit1(cls_sel: int, kind: int, s1: int) -> bool:
    """
    every single edit from each start state (empty, loaded from mol2, clone), Molecule and Structure
    pre: 0 <= cls_sel <= 1 and 0 <= kind <= 2 and 0 <= s1 < 90
    pre: SPLIT < 0 or cls_sel * 3 + kind == SPLIT
    post: _
    """
    return _history(Molecule if cls_sel == 0 else Structure, kind, [s1], False, -1)


def h_edit2(cls_sel: int, kind: int, s1: int, s2: int) -> bool:
    """
    every history of two edits; the first move is split over NSPLIT processes
    pre: 0 <= cls_sel <= 1 and 1 <= kind <= 2 and 0 <= s1 < 90 and 0 <= s2 < 115
    post: _
    """
    return _history(Molecule if cls_sel == 0 else Structure, kind, [s1, s2], False, SPLIT)


def h_edit3_adddel(kind: int, s1: int, s2: int, s3: int) -> bool:
    """
    every history of three edits over the add/delete subset (Molecule)
    pre: 0 <= kind <= 2 and 0 <= s1 < 20 and 0 <= s2 < 25 and 0 <= s3 < 27
    post: _
    """
    return _history(Molecule, kind, [s1, s2, s3], True, SPLIT)


def h_parallel_bonds(cls_sel: int, i: int, j: int, n_extra: int, which: int, then: int) -> bool:
    """
    parallel bonds: a pair of atoms (bonded already or not) is connected 1-2 more times, one of the bonds joining the pair is deleted by object,
    then another edit follows (delete the next bond of the pair, delete an atom of the pair, add hydrogens): containers stay aligned, every bond in
    the list has the molecule as parent and joins two of its atoms, deleting the atom deletes all its bonds
    pre: 0 <= cls_sel <= 1 and 0 <= i <= 4 and 0 <= j <= 4 and i < j and 1 <= n_extra <= 2 and 0 <= which <= 2 and 0 <= then <= 3
    pre: SPLIT < 0 or then == SPLIT
    pre: not QUICK or (i, j) in ((0, 1), (0, 2), (1, 4))
    post: _
    """
    cls = Molecule if cls_sel == 0 else Structure
    m = start(1, cls)
    ref = Ref(m, cls is Molecule)
    i, j, ne, wh, th = pick(i, 5), pick(j, 5), pick(n_extra - 1, 2) + 1, pick(which, 3), pick(then, 4)
    for _ in range(ne):
        if not apply(m, ref, ("connect", i, j)) or not aligned(m, ref):
            return False
    a1, a2 = ref.atoms[i], ref.atoms[j]
    pair = [k for k, x in enumerate(ref.bonds) if (x.a1 is a1 and x.a2 is a2) or (x.a1 is a2 and x.a2 is a1)]
    if wh >= len(pair):
        return True
    if not apply(m, ref, ("del_bond", pair[wh], 0)) or not aligned(m, ref):
        return False
    if th == 1:
        pair = [k for k, x in enumerate(ref.bonds) if (x.a1 is a1 and x.a2 is a2) or (x.a1 is a2 and x.a2 is a1)]
        if pair and (not apply(m, ref, ("del_bond", pair[-1], 0)) or not aligned(m, ref)):
            return False
    elif th == 2:
        if not apply(m, ref, ("del_obj", i, 0)) or not aligned(m, ref):
            return False
    elif th == 3:
        if not apply(m, ref, ("hadd", 0, 0)) or not aligned(m, ref):
            return False
    return True


def h_bond_iterables(cls_sel: int, how: int, kind: int, then: int) -> bool:
    """
    bonds handed over in bulk: append_bonds(*bonds) / extend_bonds(iterable) with a list, a tuple, a generator or a map object of new Bond objects between
    atoms of the molecule, followed by another edit: every bond in the list has the molecule as parent and joins two of its atoms, containers stay aligned
    pre: 0 <= cls_sel <= 1 and 0 <= how <= 1 and 0 <= kind <= 3 and 0 <= then <= 2
    post: _
    """
    cls = Molecule if cls_sel == 0 else Structure
    m = start(1, cls)
    ref = Ref(m, cls is Molecule)
    pairs = [(0, 2), (3, 4), (1, 3)]
    new = [Bond(ref.atoms[i], ref.atoms[j], btype=2) for i, j in pairs]
    arg = [new, tuple(new), (b for b in new), map(lambda b: b, new)][pick(kind, 4)]
    if pick(how, 2) == 0:
        m.append_bonds(*arg)
    else:
        m.extend_bonds(arg)
    ref.bonds += new
    if not aligned(m, ref):
        return False
    th = pick(then, 3)
    if th == 1 and (not apply(m, ref, ("del_obj", 1, 0)) or not aligned(m, ref)):
        return False
    if th == 2 and (not apply(m, ref, ("del_bond", len(ref.bonds) - 1, 0)) or not aligned(m, ref)):
        return False
    return True


def h_edit2_quick(s1: int, s2: int) -> bool:
    """
    two-edit histories over the add/delete subset from the loaded molecule (quick tier)
    pre: 0 <= s1 < 20 and 0 <= s2 < 25
    post: _
    """
    return _history(Molecule, 1, [s1, s2], True, SPLIT)


ENCODED = ["molli.chem.molecule.Molecule.add_atom", "molli.chem.molecule.Molecule.del_atom", "molli.chem.structure.Structure.del_atom",
           "molli.chem.geometry.CartesianGeometry.add_atom", "molli.chem.geometry.CartesianGeometry.new_atom", "molli.chem.geometry.CartesianGeometry.del_atom",
           "molli.chem.bond.Connectivity.del_atom", "molli.chem.bond.Connectivity.connect", "molli.chem.bond.Connectivity.append_bond", "molli.chem.bond.Connectivity.del_bond",
           "molli.chem.atom.Promolecule.del_atom", "molli.chem.atom.Promolecule.get_atom", "molli.chem.atom.Promolecule.get_atom_index", "molli.chem.atom.Promolecule.append_atom",
           "molli.chem.atom.Promolecule.index_atom", "molli.chem.structure.Structure.remove_substituent", "molli.chem.structure.Structure.add_implicit_hydrogens"]


def run(rep, tier):
    from engine import xh
    rep.encoded = ENCODED
    rep.bounds = {"start states": "empty, loaded from a 5-atom mol2 text, clone", "classes": "Molecule, Structure",
                  "operations": "add_atom (charge given / omitted), new_atom, del_atom by object / index (-2..n+1) / label / Element, connect, append_bond (own atoms / a foreign atom), del_bond, remove_substituent (objects / indices), add_implicit_hydrogens; connect / del_atom with a stale reference to an atom deleted earlier",
                  "parallel bonds": "a pair connected 1-2 extra times, one bond of the pair deleted by object, then another edit", "history length": "1 (all), 2 (quick: add/delete subset; thorough: all), 3 (thorough, add/delete subset)"}
    rep.outside = ["histories longer than 3; the random length-40 histories of the quantifier are not reproduced (that would be sampling)",
                   "Conformer / Substructure views", "[selector-bound]: the symbolic variables are selectors over the finite menu of applicable moves; the solver enumerates them"]
    rep.assumptions = ["reference model keyed by atom identity; coordinates/charges carry a per-atom tag"]
    q = tier == "quick"
    specs = [{"fn": "h_edit1", "timeout": 600, "split": s} for s in range(6)] + [{"fn": "h_parallel_bonds", "timeout": 600 if q else 3000, "split": s, "env": ({} if q else {"XH_THOROUGH": "1"})} for s in range(4)] + [{"fn": "h_bond_iterables", "timeout": 600}]
    if q:
        specs += [{"fn": "h_edit2_quick", "timeout": 600, "split": s, "env": {"XH_NSPLIT": "8"}} for s in range(8)]
    else:
        specs += [{"fn": "h_edit2", "timeout": 3000, "split": s} for s in range(16)]
        specs += [{"fn": "h_edit3_adddel", "timeout": 3000, "split": s} for s in range(16)]
    xh.run_obligations(rep, "harness.C05", specs)
    xh.known_witness(rep, "harness.C05")
