"""C01 — library round trip: what is stored in a .mlib/.clib is what is read back (XH)."""
import os
from typing import Optional
import numpy as np
from harness.storage_env import *   # noqa
import molli.chem.library as L
import molli.chem.io as mio
from molli.chem import Atom, Bond, Molecule, ConformerEnsemble, Element
from molli.chem.library import MoleculeLibrary, ConformerLibrary
from engine.envmodels import HandleCodec, FakePath

HAS_REAL = True
SPLIT = int(os.environ.get("XH_SPLIT", "-1"))
if not REAL:
    L.msgpack = HandleCodec
    L.Path = FakePath
    L.open = lambda p, mode="r": FakePath(p).open(mode)

ELEMENTS = [0, 1, 6, 118]                       # Unknown, H, C, Og
FORDERS = [0.0, 0.5, 1.0, 1.5]
PAIRS = [(0, 1), (1, 0), (0, 2), (2, 1)]
# concrete arrays: distinct values, a negative, a NaN, values not exactly representable in float32
COORDS = np.array([[0.1, -2.5, 3.0], [1e-3, float("nan"), -7.25], [12345.678, 0.0, -0.333333333]])
CHARGES = np.array([0.5, -0.25, 0.123456789])
# cells: (element index, n_atoms, n_bonds)
MCELLS = [(e, na, nb) for e in range(4) for na, nb in ((1, 0), (2, 1), (3, 2))] + [(0, 0, 0)]
ECELLS = [(nc, na, nb) for nc in (0, 1, 2) for na, nb in ((0, 0), (1, 0), (2, 1), (3, 2))]


def _tup(x):
    """list/tuple-insensitive view of an attribute value (msgpack's use_list=False turns lists into tuples)"""
    if isinstance(x, (list, tuple)):
        return tuple(_tup(y) for y in x)
    if isinstance(x, dict):
        return {k: _tup(v) for k, v in x.items()}
    return x


def _f32(a):
    return np.asarray(a, dtype=float).astype(">f4")


def _same_arr(a, b):
    a, b = np.asarray(a), np.asarray(b)
    return a.shape == b.shape and np.array_equal(_f32(a), _f32(b), equal_nan=True)


def _same_struct(r, m, v1):
    """field-by-field equality of the object read back (r) with the one stored (m)"""
    if r.name != m.name or r.charge != m.charge or r.mult != m.mult:
        return False
    if not v1 and _tup(r.attrib) != _tup(m.attrib):
        return False
    if r.n_atoms != m.n_atoms or r.n_bonds != m.n_bonds:
        return False
    for x, y in zip(r.atoms, m.atoms):
        if int(x.element) != int(y.element) or x.isotope != y.isotope or x.label != y.label:
            return False
        if x.atype != y.atype or x.stereo != y.stereo or x.geom != y.geom:
            return False
        if (x.label is None) != (y.label is None) or (x.isotope is None) != (y.isotope is None):
            return False
        if not v1:
            if x.formal_charge != y.formal_charge or x.formal_spin != y.formal_spin or _tup(x.attrib) != _tup(y.attrib):
                return False
        if x.parent is not r:
            return False
    for x, y in zip(r.bonds, m.bonds):
        if r.atoms.index(x.a1) != m.atoms.index(y.a1) or r.atoms.index(x.a2) != m.atoms.index(y.a2):
            return False
        if x.label != y.label or (x.label is None) != (y.label is None) or x.btype != y.btype or x.stereo != y.stereo:
            return False
        if float(np.float32(x.f_order)) != float(np.float32(y.f_order)):
            return False
        if not v1 and _tup(x.attrib) != _tup(y.attrib):
            return False
    return True


def _atoms(el, na, iso, label, atype, stereo, geom, fc, fs, aint):
    atoms = []
    if na >= 1:
        atoms.append(Atom(ELEMENTS[el], isotope=iso, label=label, atype=atype, stereo=stereo, geom=geom, formal_charge=fc,
                          formal_spin=fs, attrib=({} if aint == 0 else {"n": {"deep": aint, "t": ("x", None)}})))      # aint == 0: no attributes at all
    if na >= 2:
        atoms.append(Atom("N", label="", isotope=15, formal_charge=-1, attrib={}))
    if na >= 3:
        atoms.append(Atom("Cl", label="c3", formal_spin=1))
    return atoms


def _bonds(m, nb, psel, blabel, btype, bstereo, fsel, bint):
    if nb >= 1:
        i, j = PAIRS[psel] if m.n_atoms > 2 else PAIRS[psel % 2]
        m.connect(i, j, label=blabel, btype=btype, stereo=bstereo, f_order=FORDERS[fsel], attrib={"b": bint})
    if nb >= 2:
        m.connect(2, 0 if PAIRS[psel] != (0, 2) else 1, label="", btype=20, f_order=1.5)


def _make_v1_file(p, clib):
    """an empty legacy (ML10Library) file, which makes the library classes choose the v1 codecs"""
    f = UKVFile(p, "w", h1=b"ML10Library")
    f.close()


def _roundtrip(libcls, obj, key, legacy):
    p = new_path()
    HandleCodec.reset()
    if legacy:
        _make_v1_file(p, libcls)
    lib = libcls(p, readonly=False)
    if legacy and lib._serializer not in (mio._serialize_mol_v1, mio._serialize_ens_v1):
        return None
    with lib.writing():
        lib[key] = obj
    rd = libcls(p, readonly=True)
    with rd.reading():
        if list(rd.keys()) != [key]:
            return None
        return rd[key]


DEF = dict(prof=0, name="nm", charge=-2, mult=3, iso=13, label="L", atype=2, stereo=10, geom=41, fc=-1, fs=1, aint=7, mint=9, psel=0,
           blabel="bl", btype=2, bstereo=11, fsel=1, bint=5)


def _mol_rt(cell, legacy, **kw):
    f = dict(DEF, **kw)
    el, na, nb = MCELLS[cell]
    atoms = _atoms(el, na, f["iso"], f["label"], f["atype"], f["stereo"], f["geom"], f["fc"], f["fs"], f["aint"])
    m = Molecule(atoms, name=f["name"], charge=f["charge"], mult=f["mult"], coords=COORDS[:na], atomic_charges=CHARGES[:na],
                 attrib={"val": f["mint"], "nested": {"k": (1, "two", None)}, "s": "txt"})
    _bonds(m, nb, f["psel"], f["blabel"], f["btype"], f["bstereo"], f["fsel"], f["bint"])
    r = _roundtrip(MoleculeLibrary, m, "key", legacy)
    if r is None or type(r) is not Molecule:
        return False
    return _same_struct(r, m, legacy) and _same_arr(r.coords, m.coords) and _same_arr(r.atomic_charges, m.atomic_charges) \
        and r.coords.shape == (na, 3) and r.atomic_charges.shape == (na,)


def _ens_rt(cell, legacy, **kw):
    f = dict(DEF, **kw)
    nc, na, nb = ECELLS[cell]
    atoms = _atoms(1, na, f["iso"], f["label"], f["atype"], f["stereo"], f["geom"], f["fc"], f["fs"], f["aint"])
    # array profiles: 0 = clearly different conformers, 1 = conformers differing by a few float32 ulps, 2 = identical conformers
    if f["prof"] == 0:
        coords = np.array([COORDS[:na] * (c + 1) + c for c in range(nc)]).reshape((nc, na, 3))
        charges = np.array([CHARGES[:na] - 0.5 * c for c in range(nc)]).reshape((nc, na))
        weights = np.array([0.75, 0.1][:nc])
    elif f["prof"] == 1:
        coords = np.array([COORDS[:na] * (1 + 4e-7 * c) for c in range(nc)]).reshape((nc, na, 3))
        charges = np.array([CHARGES[:na] * (1 + 4e-7 * c) for c in range(nc)]).reshape((nc, na))
        weights = np.array([0.5, 0.5 * (1 + 4e-7)][:nc])
    else:
        coords = np.array([COORDS[:na] for c in range(nc)]).reshape((nc, na, 3))
        charges = np.array([CHARGES[:na] for c in range(nc)]).reshape((nc, na))
        weights = np.array([0.5, 0.5][:nc])
    e = ConformerEnsemble(atoms if na else None, n_conformers=nc, name=f["name"], charge=f["charge"], mult=f["mult"], coords=coords, weights=weights,
                          atomic_charges=charges, attrib={"val": f["mint"], "s": "txt"})
    _bonds(e, nb, f["psel"], f["blabel"], f["btype"], f["bstereo"], f["fsel"], f["bint"])
    r = _roundtrip(ConformerLibrary, e, "ek", legacy)
    if r is None or type(r) is not ConformerEnsemble:
        return False
    if r.n_conformers != nc or r.coords.shape != (nc, na, 3) or r.atomic_charges.shape != (nc, na) or r.weights.shape != (nc,):
        return False
    return _same_struct(r, e, legacy) and _same_arr(r.coords, e.coords) and _same_arr(r.atomic_charges, e.atomic_charges) \
        and _same_arr(r.weights, e.weights)


def pick(sel, n):
    for i in range(n):
        if sel == i:
            return i
    return 0


def h_reread(kind: int, legacy: bool, mut: int, fresh: bool) -> bool:
    """
    what is read back does not depend on what was done to an object read earlier: store, read, modify the object that came back (name, charge,
    coordinates, atom label, attribute, an atom deleted), read the same key again (through the same or a fresh library handle): the second object
    equals what was stored.  Runs outside the tracer once the selectors are concrete (a C-level cache on the read path is invisible to CrossHair).
    pre: 0 <= kind <= 1 and 0 <= mut <= 5
    post: _
    """
    from crosshair.tracers import NoTracing
    import msgpack as real_msgpack
    kind, mut = pick(kind, 2), pick(mut, 6)
    saved_codec = L.msgpack
    L.msgpack = real_msgpack                  # concrete values outside the tracer: the real codec (the handle model keeps references, real msgpack copies)
    try:
        return _reread(kind, legacy, mut, fresh)
    finally:
        L.msgpack = saved_codec


def _reread(kind, legacy, mut, fresh):
    from crosshair.tracers import NoTracing
    with NoTracing():
        atoms = _atoms(2, 3, 13, "L", 2, 10, 41, -1, 1, 7)
        if kind == 0:
            libcls = MoleculeLibrary
            m = Molecule(atoms, name="nm", charge=-2, mult=3, coords=COORDS[:3], atomic_charges=CHARGES[:3], attrib={"val": 9})
        else:
            libcls = ConformerLibrary
            m = ConformerEnsemble(atoms, n_conformers=2, name="nm", charge=-2, mult=3, coords=np.array([COORDS[:3], COORDS[:3] * 2.0]), weights=np.array([0.75, 0.25]),
                                  atomic_charges=np.array([CHARGES[:3], CHARGES[:3] - 0.5]), attrib={"val": 9})
        _bonds(m, 2, 0, "bl", 2, 10, 1, 5)
        p = new_path()
        HandleCodec.reset()
        if legacy:
            _make_v1_file(p, libcls)
        lib = libcls(p, readonly=False)
        with lib.writing():
            lib["k"] = m
            lib["k2"] = m                              # a second key holding an identical record
        rd = libcls(p, readonly=True)
        with rd.reading():
            r1 = rd["k"]
        if mut == 0:
            r1.name = "changed"
        elif mut == 1:
            r1.charge = 5
        elif mut == 2:
            r1.coords[...] = -1.0
        elif mut == 3:
            r1.atoms[0].label = "zz"
        elif mut == 4:
            r1.attrib["val"] = "other"
        else:
            r1.del_atom(r1.atoms[2])
        rd2 = libcls(p, readonly=True) if fresh else rd
        for key in ("k", "k2"):
            with rd2.reading():
                r2 = rd2[key]
            if r2 is r1 or not _same_struct(r2, m, legacy) or not _same_arr(r2.coords, m.coords) or not _same_arr(r2.atomic_charges, m.atomic_charges):
                return False
    return True


def _rt(kind, cell, legacy, **kw):
    return _mol_rt(cell, legacy, **kw) if kind == 0 else _ens_rt(cell, legacy, **kw)


def _ncells(kind):
    return len(MCELLS) if kind == 0 else len(ECELLS)


# Quick tier: three obligations per cell, each with one *group* of fields symbolic and the others concrete (sum instead of product of
# the branchings on None-ness / string length).  Thorough tier adds the full product.  SPLIT = kind * 100 + cell.

def h_top_fields(kind: int, cell: int, legacy: bool, prof: int, name: str, charge: int, mult: int, mint: int) -> bool:
    """
    object-level fields symbolic (name, charge, multiplicity, attribute value)
    pre: 0 <= kind <= 1 and 0 <= cell < _ncells(kind) and (SPLIT < 0 or kind * 100 + cell == SPLIT)
    pre: len(name) <= 2 and -9 <= charge <= 9 and 1 <= mult <= 9 and -1000 <= mint <= 1000 and 0 <= prof <= 2
    post: _
    """
    return _rt(kind, cell, legacy, prof=prof, name=name, charge=charge, mult=mult, mint=mint)


def h_atom_fields(kind: int, cell: int, legacy: bool, iso: Optional[int], label: Optional[str], atype: int, stereo: int, geom: int, fc: int, fs: int, aint: int) -> bool:
    """
    fields of atom 0 symbolic
    pre: 0 <= kind <= 1 and 0 <= cell < _ncells(kind) and (SPLIT < 0 or kind * 100 + cell == SPLIT)
    pre: (iso is None or 0 <= iso <= 300) and (label is None or len(label) <= 2)
    pre: 0 <= atype <= 300 and 0 <= stereo <= 40 and 0 <= geom <= 70 and -4 <= fc <= 4 and 0 <= fs <= 4 and -1000 <= aint <= 1000
    post: _
    """
    return _rt(kind, cell, legacy, iso=iso, label=label, atype=atype, stereo=stereo, geom=geom, fc=fc, fs=fs, aint=aint)


def h_bond_fields(kind: int, cell: int, legacy: bool, psel: int, blabel: Optional[str], btype: int, bstereo: int, fsel: int, bint: int) -> bool:
    """
    fields of bond 0 symbolic (endpoints by selector, label, type, stereo, fractional order menu, attribute value)
    pre: 0 <= kind <= 1 and 0 <= cell < _ncells(kind) and (SPLIT < 0 or kind * 100 + cell == SPLIT)
    pre: (blabel is None or len(blabel) <= 2) and 0 <= btype <= 101 and 0 <= bstereo <= 21 and 0 <= fsel < 4 and 0 <= psel < 4 and -1000 <= bint <= 1000
    post: _
    """
    return _rt(kind, cell, legacy, psel=psel, blabel=blabel, btype=btype, bstereo=bstereo, fsel=fsel, bint=bint)


def h_all_fields(kind: int, cell: int, legacy: bool, name: str, charge: int, mult: int, iso: Optional[int], label: Optional[str], atype: int, stereo: int,
                 geom: int, fc: int, fs: int, aint: int, mint: int, psel: int, blabel: Optional[str], btype: int, bstereo: int, fsel: int, bint: int) -> bool:
    """
    full product of the three groups (thorough tier)
    pre: 0 <= kind <= 1 and 0 <= cell < _ncells(kind) and (SPLIT < 0 or kind * 100 + cell == SPLIT)
    pre: len(name) <= 1 and -9 <= charge <= 9 and 1 <= mult <= 9
    pre: (iso is None or 0 <= iso <= 300) and (label is None or len(label) <= 1) and (blabel is None or len(blabel) <= 1)
    pre: 0 <= atype <= 300 and 0 <= stereo <= 40 and 0 <= geom <= 70 and -4 <= fc <= 4 and 0 <= fs <= 4
    pre: 0 <= btype <= 101 and 0 <= bstereo <= 21 and 0 <= fsel < 4 and 0 <= psel < 4
    pre: -1000 <= aint <= 1000 and -1000 <= mint <= 1000 and -1000 <= bint <= 1000
    post: _
    """
    return _rt(kind, cell, legacy, name=name, charge=charge, mult=mult, iso=iso, label=label, atype=atype, stereo=stereo, geom=geom, fc=fc, fs=fs,
               aint=aint, mint=mint, psel=psel, blabel=blabel, btype=btype, bstereo=bstereo, fsel=fsel, bint=bint)


ENCODED = ["molli.chem.io._serialize_mol_v2", "molli.chem.io._deserialize_mol_v2", "molli.chem.io._serialize_ens_v2", "molli.chem.io._deserialize_ens_v2",
           "molli.chem.io._serialize_mol_v1", "molli.chem.io._deserialize_mol_v1", "molli.chem.io._serialize_ens_v1", "molli.chem.io._deserialize_ens_v1",
           "molli.chem.library.MoleculeLibrary.__init__", "molli.chem.library.MoleculeLibrary._molecule_encoder", "molli.chem.library.MoleculeLibrary._molecule_decoder",
           "molli.chem.library.ConformerLibrary.__init__", "molli.chem.library.ConformerLibrary._ensemble_encoder", "molli.chem.library.ConformerLibrary._ensemble_decoder",
           "molli.chem.atom.Atom.as_tuple", "molli.chem.bond.Bond.as_tuple", "molli.chem.bond.Connectivity.connect", "molli.chem.molecule.Molecule.__init__",
           "molli.chem.ensemble.ConformerEnsemble.__init__", "molli.storage.collection.Collection.__setitem__", "molli.storage.collection.Collection.__getitem__"]


def run(rep, tier):
    from engine import xh, envmodels
    rep.encoded = ENCODED
    rep.models_validated = envmodels.validate_storage_models() + envmodels.validate_handle_codec()
    rep.bounds = {"symbolic": "name (str<=2), charge [-9,9], mult [1,9], atom 0: isotope Optional[int], label Optional[str<=2], atype/stereo/geom ints (incl. non-members), formal charge/spin, nested attrib int; bond 0: label, btype, stereo, attrib int, endpoint pair selector, f_order menu {0,.5,1,1.5}; molecule attrib int",
                  "array profiles": "conformers clearly different / differing by ~3 float32 ulps / identical (selector)", "concrete loops": "element of atom 0 in {Unknown, H, C, Og}; n_atoms 0..3; n_bonds 0..2; n_conformers 0..2; arrays with a NaN, a negative and float32-inexact values",
                  "encodings": "v2 and legacy v1 (file magic ML10Library), compared on the v1 schema only"}
    rep.outside = ["the msgpack C encoder/decoder itself (HandleCodec model; validated against msgpack each run; replays use real msgpack)",
                   "numpy astype/tobytes/frombuffer on symbolic data (arrays are concrete)", "sizes beyond the bound", "multiplicity 0 (documented multiplicity >= 1)",
                   "list-valued attributes are compared up to list/tuple (msgpack use_list=False)"]
    rep.assumptions = ["HandleCodec = msgpack round trip (tuple-isation, IntEnum->int, float32 rounding); storage models as in C02"]
    q = tier == "quick"
    mc = list(range(len(MCELLS))) if not q else [2, 4, 8, 11, 12]
    ec = list(range(len(ECELLS))) if not q else [0, 3, 5, 6, 11]
    specs = []
    for kind, cells in ((0, mc), (1, ec)):
        for c_ in cells:
            na, nb = (MCELLS[c_][1], MCELLS[c_][2]) if kind == 0 else (ECELLS[c_][1], ECELLS[c_][2])
            specs.append({"fn": "h_top_fields", "timeout": 400, "split": kind * 100 + c_})
            if na >= 1:
                specs.append({"fn": "h_atom_fields", "timeout": 400, "split": kind * 100 + c_})
            if nb >= 1:
                specs.append({"fn": "h_bond_fields", "timeout": 400, "split": kind * 100 + c_})
    if not q:
        specs += [{"fn": "h_all_fields", "timeout": 2400, "split": s_} for s_ in (2, 11, 106, 111)]
    specs.append({"fn": "h_reread", "timeout": 400})
    xh.run_obligations(rep, "harness.C01", specs)
    xh.known_witness(rep, "harness.C01")
