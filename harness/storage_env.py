"""Environment switch shared by the storage harnesses (C02, C03, C04): models under CrossHair, real files/struct/fasteners for replay."""
import os, tempfile, itertools
REAL = os.environ.get("XH_REAL") == "1"
import molli.storage.ukvfile as U
import molli.storage.backends as B
import molli.storage.collection as C
from molli.storage.ukvfile import UKVFile
from molli.storage.backends import UkvCollectionBackend
from molli.storage.collection import Collection
from engine import envmodels as E

_counter = itertools.count()


class InjectedFault(OSError):
    pass


class _Fault:
    """raises InjectedFault at the n-th event of a kind (write / close / open) counted since arm()"""

    def __init__(self):
        self.kind, self.at, self.n = None, 0, 0

    def arm(self, kind, at):
        self.kind, self.at, self.n = kind, at, 0

    def disarm(self):
        self.kind = None

    def hit(self, kind):
        if self.kind == kind:
            self.n += 1
            if self.n == self.at:
                self.kind = None
                raise InjectedFault(f"injected {kind} fault")


FAULT = _Fault()
if REAL:
    _TMP = tempfile.mkdtemp(prefix="verif_real_")
    from pathlib import Path as _RealPath

    class RecPath(type(_RealPath())):
        """real pathlib path whose binary streams record (offset, bytes) of every write (crash images need the order)"""
        writes = []

        def open(self, mode="r", *a, **k):
            FAULT.hit("open")
            f = super().open(mode, *a, **k)
            if "b" in mode:
                return _Rec(f, str(self))
            return f

    class _Rec:
        def __init__(self, f, name):
            self._f, self._name = f, name

        def write(self, b):
            FAULT.hit("write")
            RecPath.writes.append((self._name, self._f.tell(), bytes(b)))
            return self._f.write(b)

        def close(self):
            self._f.close()
            FAULT.hit("close")

        def truncate(self, n=None):
            RecPath.writes.append((self._name, self._f.tell() if n is None else n, None))
            return self._f.truncate(n)

        def __getattr__(self, a):
            return getattr(self._f, a)

    U.Path = RecPath
    B.Path = RecPath
    C.Path = RecPath
else:
    E.install_storage_models()
    _mw, _mc, _po = E.MemStream.write, E.MemStream.close, E.FakePath.open

    def _w(self, b):
        FAULT.hit("write")
        return _mw(self, b)

    def _c(self):
        _mc(self)
        FAULT.hit("close")

    def _o(self, mode="r"):
        FAULT.hit("open")
        return _po(self, mode)

    E.MemStream.write, E.MemStream.close, E.FakePath.open = _w, _c, _o


def new_path():
    """a fresh library path in a fresh environment"""
    if REAL:
        RecPath.writes.clear()
        return os.path.join(_TMP, f"lib{next(_counter)}.ukv")
    E.fresh_fs()
    return "lib"


def file_bytes(p) -> bytes:
    if REAL:
        with open(p, "rb") as f:
            return f.read()
    return E.FakePath.fs.files[str(p)]


def set_file_bytes(p, data: bytes):
    if REAL:
        with open(p, "wb") as f:
            f.write(bytes(data))
    else:
        E.FakePath.fs.files[str(p)] = data


def writes_log():
    """ordered (offset, data|None) list of writes since new_path()"""
    if REAL:
        return [(o, d) for _, o, d in RecPath.writes]
    return [(o, d) for _, o, d in E.FakePath.fs.writes]


def clear_writes():
    if REAL:
        RecPath.writes.clear()
    else:
        E.FakePath.fs.writes.clear()


def lock_state(p):
    """(readers, writers) held on the library's lock as far as this process can tell"""
    if REAL:
        # fcntl locks do not conflict inside one process: probe from a fresh process (as observe_at of C04 says)
        import subprocess, sys
        code = ("import sys\nfrom fasteners import InterProcessReaderWriterLock\nfrom molli._aux.lock import rwlock\n"
                "lk = InterProcessReaderWriterLock(rwlock(sys.argv[1]))\n"
                "if lk.acquire_write_lock(timeout=0.3): print('0 0')\n"
                "elif lk.acquire_read_lock(timeout=0.3): print('1 0')\n"
                "else: print('0 1')\n")
        out = subprocess.run([sys.executable, "-c", code, str(p)], capture_output=True, text=True, env=dict(os.environ)).stdout.split()
        return (int(out[0]), int(out[1]))
    st = E.RWLock.registry.get(str(p), {"r": 0, "w": 0})
    return (st["r"], st["w"])


def same_elems(a, b) -> bool:
    """multiset equality by == (no hashing of symbolic values)"""
    a, b = list(a), list(b)
    if len(a) != len(b):
        return False
    for x in a:
        found = False
        for i, y in enumerate(b):
            if x == y:
                del b[i]
                found = True
                break
        if not found:
            return False
    return True


def mkb(n, a=0, b=0, c=0) -> bytes:
    """bytes of *concrete* length n (forked on by the caller's selector) with symbolic content a, b, c.
    Measured: symbolic-length bytes cost ~1.3 s per path in the UKV code, concrete-length ones ~0.07 s."""
    if n == 0:
        return b""
    if n == 1:
        return bytes([a])
    if n == 2:
        return bytes([a, b])
    return bytes([a, b, c])


def isbyte(*xs) -> bool:
    for x in xs:
        if not (0 <= x < 256):
            return False
    return True
