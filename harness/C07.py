"""C07 — mol2 written by molli reads back as the same molecule (XH)."""
import os
from typing import Optional
import numpy as np
from molli.chem import Atom, Bond, Molecule, Structure, ConformerEnsemble, Element, AtomType, AtomGeom, BondType
from engine.common import known_predicates

SPLIT = int(os.environ.get("XH_SPLIT", "-1"))
KF = set(known_predicates("C07"))
ATYPES = [int(x) for x in AtomType]
GEOMS = [int(x) for x in AtomGeom]
BTYPES = [int(x) for x in BondType]
NEL = 119
NCHUNK = 8            # elements are split over processes in chunks


def member(x, values):
    for v in values:
        if x == v:
            return True
    return False


def _type_fixed_point(z, atype, geom):
    a = Atom(z, atype=atype, geom=geom)
    t1 = a.get_mol2_type()
    if not isinstance(t1, str) or len(t1) == 0 or " " in t1:
        return False
    b = Atom()
    b.set_mol2_type(t1)                       # every token molli can emit is accepted by its own reader
    if atype == AtomType.Dummy:
        if b.atype != AtomType.Dummy or int(b.element) != z:
            return False
    elif int(b.element) != z:
        return False
    t2 = b.get_mol2_type()
    if t2 != t1:                              # second cycle changes nothing: the written token is a fixed point
        return False
    c = Atom()
    c.set_mol2_type(t2)
    return c.get_mol2_type() == t2 and int(c.element) == int(b.element) and c.atype == b.atype and c.geom == b.geom


def h_atom_types(chunk: int, zoff: int, atype: int, geom: int) -> bool:
    """
    Atom type vocabulary: element z = chunk*15 + zoff (concrete after the fork), atom type and geometry symbolic ints over [0,250] x [0,70] (a superset of the enum values: z3 splits on molli's match arms, not on the grid).
    pre: 0 <= chunk < NCHUNK and 0 <= zoff < 15 and chunk * 15 + zoff < NEL
    pre: 0 <= atype <= 250 and 0 <= geom <= 70
    pre: SPLIT < 0 or chunk == SPLIT
    post: _
    """
    z = None
    for k in range(NEL):
        if chunk * 15 + zoff == k:
            z = k
    return _type_fixed_point(z, atype, geom)


def h_bond_types(btype: int) -> bool:
    """
    Bond type vocabulary: every token emitted is accepted; types mol2 can express survive; the token is a fixed point.
    pre: 0 <= btype <= 110
    post: _
    """
    a1, a2 = Atom("C"), Atom("C")
    b = Bond(a1, a2, btype=btype)
    t1 = b.get_mol2_type()
    if not isinstance(t1, str) or len(t1) == 0:
        return False
    c = Bond(Atom("C"), Atom("C"))
    c.set_mol2_type(t1)
    # types mol2 can express (molli's token table) are preserved exactly
    expressible = [1, 2, 3, 20, 21, 10, 0, 11]       # Tripos: 1 2 3 ar am du un nc (4-6 are molli extensions the writer does not emit)
    if member(btype, expressible) and c.btype != btype:
        return False
    t2 = c.get_mol2_type()
    return t2 == t1


# ---------------------------------------------------------------- whole text ------------------------------------------------------------
NAMES = ["m", "a_b-1", "name with blanks", "x" * 30, "123", "@odd", "#hash", "\u00e9t\u00e9"]
LABELS = [None, "", "C1", "abcdefgh", "#", "@<TRIPOS>BOND", "12", "a.b", "*"]
ELS = ["C", "N", "Og", "H", "Fe", "Unknown"]
XYZ = [[0.0, 0.0, 0.0], [-1.5, 2.25, 1e-7], [123456.789012, -99999.5, 0.1234564], [1.0000004, -0.0000004, 3.3333333]]
QS = [0.0, -0.5, 0.1234, 12.5, -0.0006]
BT = [1, 2, 3, 20, 21, 10, 0, 11]
ATS = [(1, 0), (31, 0), (2, 0), (1, 31), (100, 0), (34, 41)]       # (atom type, geometry) pairs


def pick(sel, n):
    for i in range(n):
        if sel == i:
            return i
    return 0


def _build(cls_sel, name_sel, na, lab_sel, el_sel, xyz_sel, q_sel, bt_sel, at_sel, nconf):
    atoms = []
    for i in range(na):
        at, gm = ATS[(at_sel + i) % len(ATS)]
        atoms.append(Atom(ELS[(el_sel + i) % len(ELS)], label=LABELS[(lab_sel + 2 * i) % len(LABELS)], atype=at, geom=gm))
    coords = np.array([XYZ[(xyz_sel + i) % len(XYZ)] for i in range(na)], dtype=float).reshape((na, 3))
    qs = np.array([QS[(q_sel + i) % len(QS)] for i in range(na)], dtype=float)
    name = NAMES[name_sel]
    if cls_sel == 0:
        m = Molecule(atoms, name=name, coords=coords, atomic_charges=qs)
    elif cls_sel == 1:
        m = Structure(atoms, name=name, coords=coords)
    else:
        m = ConformerEnsemble(atoms, n_conformers=nconf, name=name)
        m.coords = np.array([coords + 0.5 * c for c in range(nconf)]).reshape((nconf, na, 3))
        m.atomic_charges = np.array([qs - 0.25 * c for c in range(nconf)]).reshape((nconf, na))
    if na >= 2:
        m.connect(0, 1, btype=BT[bt_sel])
    if na >= 3:
        m.connect(2, 0, btype=BT[(bt_sel + 3) % len(BT)])
    return m


def _same(r, m, has_q, coords, qs):
    if r.name != m.name or r.n_atoms != m.n_atoms or r.n_bonds != m.n_bonds:
        return False
    for x, y in zip(r.atoms, m.atoms):
        if y.atype == AtomType.Dummy:
            if x.atype != AtomType.Dummy or x.element != y.element:
                return False
        elif x.element != y.element:
            return False
        if y.label and x.label != y.label:          # every non-empty label
            return False
    rc = np.asarray(r.coords, dtype=float)
    if rc.shape != np.asarray(coords).shape or (rc.size and np.max(np.abs(rc - np.asarray(coords))) > 1e-6):
        return False
    if has_q:
        rq = np.asarray(r.atomic_charges, dtype=float)
        if rq.shape != np.asarray(qs).shape or (rq.size and np.max(np.abs(rq - np.asarray(qs))) > 1e-3):
            return False
    for x, y in zip(r.bonds, m.bonds):
        if r.atoms.index(x.a1) != m.atoms.index(y.a1) or r.atoms.index(x.a2) != m.atoms.index(y.a2) or x.btype != y.btype:
            return False
    return True


def h_mol2_text(cls_sel: int, name_sel: int, na: int, lab_sel: int, el_sel: int, xyz_sel: int, q_sel: int, bt_sel: int, at_sel: int, nconf: int) -> bool:
    """
    dumps_mol2 -> loads_mol2 / loads_all_mol2 / ConformerEnsemble.loads_mol2 on menus of names, labels, elements, coordinates, charges, bond and atom types.
    pre: 0 <= cls_sel <= 2 and 0 <= name_sel < len(NAMES) and 0 <= na <= 3 and 0 <= lab_sel < len(LABELS) and 0 <= el_sel < len(ELS)
    pre: 0 <= xyz_sel < len(XYZ) and 0 <= q_sel < len(QS) and 0 <= bt_sel < len(BT) and 0 <= at_sel < len(ATS) and 1 <= nconf <= 2
    pre: SPLIT < 0 or (name_sel + 3 * na + lab_sel) % 16 == SPLIT
    post: _
    """
    cls_sel, name_sel, na, lab_sel, el_sel = pick(cls_sel, 3), pick(name_sel, len(NAMES)), pick(na, 4), pick(lab_sel, len(LABELS)), pick(el_sel, len(ELS))
    xyz_sel, q_sel, bt_sel, at_sel, nconf = pick(xyz_sel, len(XYZ)), pick(q_sel, len(QS)), pick(bt_sel, len(BT)), pick(at_sel, len(ATS)), pick(nconf, 3)
    return _text_rt(cls_sel, name_sel, na, lab_sel, el_sel, xyz_sel, q_sel, bt_sel, at_sel, nconf)


def _text_rt(cls_sel, name_sel, na, lab_sel, el_sel, xyz_sel, q_sel, bt_sel, at_sel, nconf):
    m = _build(cls_sel, name_sel, na, lab_sel, el_sel, xyz_sel, q_sel, bt_sel, at_sel, nconf)
    text = m.dumps_mol2()
    if cls_sel == 2:
        r = ConformerEnsemble.loads_mol2(text)
        if r.n_conformers != nconf:
            return False
        for c in range(nconf):                    # conformer count and order
            if not _same(r[c], m[c], True, m.coords[c], m.atomic_charges[c]):
                return False
        return r.dumps_mol2() == text
    cls = Molecule if cls_sel == 0 else Structure
    r = cls.loads_mol2(text)
    allr = cls.loads_all_mol2(text)
    if len(allr) != 1:
        return False
    if not _same(r, m, cls_sel == 0, m.coords, m.atomic_charges if cls_sel == 0 else None):
        return False
    if not _same(allr[0], m, cls_sel == 0, m.coords, m.atomic_charges if cls_sel == 0 else None):
        return False
    return r.dumps_mol2() == text                 # the written text is a fixed point of read/write


# menu dimensions: 0 name, 1 label, 2 element, 3 coordinates, 4 charge, 5 bond type, 6 atom type, 7 conformers.
# quick tier: every dimension varied against its most likely interaction partner (thorough tier: the full product, h_mol2_text)
QPAIRS = [(1, 2), (3, 4), (5, 6), (0, 1), (0, 7), (1, 6), (2, 6), (3, 7)]


def h_mol2_pairs(which: int, a: int, b: int, cls_sel: int, na: int) -> bool:
    """
    quick tier: two menu selectors at a time (the others at a base cell), instead of the full product
    pre: 0 <= which < len(QPAIRS) and 0 <= a < 9 and 0 <= b < 9 and 0 <= cls_sel <= 2 and 0 <= na <= 3
    pre: SPLIT < 0 or (which * 4 + na) % 16 == SPLIT
    post: _
    """
    dims = [len(NAMES), len(LABELS), len(ELS), len(XYZ), len(QS), len(BT), len(ATS), 2]
    i, j = QPAIRS[pick(which, len(QPAIRS))]
    a, b = pick(a, 9), pick(b, 9)
    if a >= dims[i] or b >= dims[j]:
        return True
    v = [0, 2, 0, 1, 1, 0, 0, 0]
    v[i], v[j] = a, b
    return _text_rt(pick(cls_sel, 3), v[0], pick(na, 4), v[1], v[2], v[3], v[4], v[5], v[6], v[7] + 1)


ENCODED = ["molli.chem.atom.Atom.get_mol2_type", "molli.chem.atom.Atom.set_mol2_type", "molli.chem.bond.Bond.get_mol2_type", "molli.chem.bond.Bond.set_mol2_type",
           "molli.chem.molecule.Molecule.dump_mol2", "molli.chem.structure.Structure.dump_mol2", "molli.chem.structure.Structure.yield_from_mol2",
           "molli.parsing.mol2.read_mol2", "molli.parsing._reader.LineReader.__next__", "molli.chem.ensemble.ConformerEnsemble.dump_mol2", "molli.chem.ensemble.ConformerEnsemble.load_mol2"]


def run(rep, tier):
    from engine import xh
    rep.encoded = ENCODED
    rep.bounds = {"type vocabulary": "all 119 elements x atom type in [0,250] x geometry in [0,70] (symbolic ints, superset of the 22 x 17 enum values); bond type in [0,110]",
                  "whole text": "Molecule / Structure / ConformerEnsemble, 0..3 atoms, 0..2 bonds, 1..2 conformers; menus: 8 names, 9 labels (None, empty, 8 chars, '#', '@<TRIPOS>BOND', digits, dotted, '*'), 6 elements, 4 coordinate rows (negative, >= 1e5, 1e-7, 7 decimals), 5 charges, 8 bond types, 6 (type, geometry) pairs"}
    rep.outside = ["free-form strings (symbolic text through the regex-based parser is not decidable with CrossHair at useful sizes): names and labels come from curated menus [selector-bound]",
                   "labels with whitespace, multi-line names (outside the property)", "bond types 4..6 and >= 98 (not expressible in Tripos mol2)", "more than 3 atoms"]
    rep.assumptions = ["io.StringIO is used as is (all text is concrete once the selectors are decided)"]
    specs = [{"fn": "h_atom_types", "timeout": 900, "split": c} for c in range(NCHUNK)] + [{"fn": "h_bond_types", "timeout": 300}]
    if tier == "quick":
        specs += [{"fn": "h_mol2_pairs", "timeout": 900, "split": c} for c in range(16)]
    else:
        specs += [{"fn": "h_mol2_text", "timeout": 3000, "split": c} for c in range(16)]
    xh.run_obligations(rep, "harness.C07", specs)
    xh.known_witness(rep, "harness.C07")
