"""C02 — a library file is an insert-only key-value map over any operation history (XH)."""
import os
from io import UnsupportedOperation
from harness.storage_env import *   # noqa: installs models (or the real environment for replay)

HAS_REAL = True
SPLIT = int(os.environ.get("XH_SPLIT", "-1"))
MAXV = int(os.environ.get("XH_MAXV", "1"))       # value length bound of h_ukv_step (quick 1, thorough 2)
STRUCT_ERRORS = (E.StructError,) + ((__import__("struct").error,) if True else ())


def _view(f, expect):
    """handle f shows exactly the records `expect` (list of (key, value))"""
    if not same_elems(list(f.keys()), [k for k, _ in expect]):
        return False
    for k, v in expect:
        if f.get(k) != v:
            return False
    return True


SCEN = [(n, st, op) for n in range(3) for st in range(n + 1) for op in range(4)]     # 24 (records, stale prefix, operation) cells


def h_ukv_step(cell: int, nk1: int, nk2: int, nk3: int, nv1: int, nv2: int, nv3: int,
               a1: int, b1: int, a2: int, b2: int, a3: int, b3: int, x1: int, y1: int, x2: int, y2: int, x3: int, y3: int) -> bool:
    """
    One operation from an arbitrary valid state: a file with nrec committed records and a long-lived handle whose cached
    table of contents is the parse of the first `stale` records (the only stale states an append-only file admits).
    pre: 0 <= cell < len(SCEN) and (SPLIT < 0 or cell == SPLIT)
    pre: 1 <= nk1 <= 2 and 1 <= nk2 <= 2 and 1 <= nk3 <= 2 and 0 <= nv1 <= MAXV and 0 <= nv2 <= MAXV and 0 <= nv3 <= MAXV
    pre: isbyte(a1, b1, a2, b2, a3, b3, x1, y1, x2, y2, x3, y3)
    post: _
    """
    nrec, stale, op = SCEN[cell]
    k1 = v1 = k2 = v2 = b""
    if nrec >= 1:
        k1, v1 = mkb(nk1, a1, b1), mkb(nv1, x1, y1)
    if nrec >= 2:
        k2, v2 = mkb(nk2, a2, b2), mkb(nv2, x2, y2)
        if k1 == k2:
            return True      # distinct committed keys (precondition of the state, not of the operation)
    k3 = v3 = b""
    if op != 0:
        k3, v3 = mkb(nk3, a3, b3), mkb(nv3, x3, y3)
    p = new_path()
    w = UKVFile(p, "w")
    w.close()
    g = UKVFile(p, "r")
    g.close()
    recs = [(k1, v1), (k2, v2)][:nrec]
    for i, (k, v) in enumerate(recs):
        if i == stale:
            g.open("r")
            g.close()
        w.open("a")
        w.put(k, v)
        w.close()
    if stale == nrec:
        g.open("r")
        g.close()
    before = file_bytes(p)
    if op == 0:        # reopen read-only: the view is the whole file
        g.open("r")
        ok = _view(g, recs)
        g.close()
        return ok and file_bytes(p) == before
    if op == 1:        # reopen for append through the stale handle, put, read through a fresh and the old handle
        if any(k3 == k for k, _ in recs):
            return True      # duplicate keys: h_ukv_dup (the KeyError message formats the key, which would realise a symbolic one)
        g.open("a")
        g.put(k3, v3)
        ok = _view(g, recs + [(k3, v3)])
        g.close()
        h = UKVFile(p, "r")
        ok = ok and _view(h, recs + [(k3, v3)])
        h.close()
        w.open("a")
        ok = ok and _view(w, recs + [(k3, v3)])
        w.close()
        return ok
    if op == 2:        # the writer handle appends while g is stale, then g reopens
        if any(k3 == k for k, _ in recs):
            return True
        w.open("a")
        w.put(k3, v3)
        w.close()
        g.open("r")
        ok = _view(g, recs + [(k3, v3)])
        g.close()
        return ok
    # op == 3: get of an absent key raises KeyError, present key returns its value; nothing changes
    g.open("r")
    present = any(k3 == k for k, _ in recs)
    try:
        val = g.get(k3)
        ok = present and any(k3 == k and val == v for k, v in recs)
    except KeyError:
        ok = not present
    ok = ok and _view(g, recs)
    g.close()
    return ok and file_bytes(p) == before


KEYMENU = [b"a", b"ab", b"\x00", b"\xff\xfe"]


def h_ukv_dup(ksel: int, osel: int, nrec: int, stale: int, via_stale: bool, nv: int, x: int, y: int) -> bool:
    """
    Duplicate key through a fresh or a stale handle: KeyError, file bytes and every handle's view unchanged.
    Keys are concrete (menu), values symbolic.
    pre: 0 <= ksel < len(KEYMENU) and 0 <= osel < len(KEYMENU) and ksel != osel
    pre: 1 <= nrec <= 2 and 0 <= stale <= nrec and 0 <= nv <= 2 and isbyte(x, y)
    post: _
    """
    key, other, v = KEYMENU[ksel], KEYMENU[osel], mkb(nv, x, y)
    p = new_path()
    w = UKVFile(p, "w")
    w.close()
    g = UKVFile(p, "r")
    g.close()
    recs = [(key, b"v0"), (other, b"")][:nrec]
    for i, (k, val) in enumerate(recs):
        if i == stale:
            g.open("r")
            g.close()
        w.open("a")
        w.put(k, val)
        w.close()
    before = file_bytes(p)
    f = g if via_stale else w
    f.open("a")
    try:
        f.put(key, v)
        return False
    except KeyError:
        pass
    ok = _view(f, recs) and file_bytes(p) == before
    f.close()
    h = UKVFile(p, "r")
    ok = ok and _view(h, recs)
    h.close()
    return ok and file_bytes(p) == before


def h_ukv_failed_ops(ka: int, nv: int, x: int, y: int, klen: int, which: int) -> bool:
    """
    Failing operations leave the file and the handle's view unchanged: duplicate key, key of 256 bytes
    (255 must succeed), put through a read-only handle.
    pre: isbyte(ka, x, y) and 0 <= nv <= 2
    pre: 255 <= klen <= 256 and 0 <= which <= 2
    post: _
    """
    kb, v = bytes([ka]), mkb(nv, x, y)
    p = new_path()
    f = UKVFile(p, "w")
    f.put(b"k0", b"v0")
    base = [(b"k0", b"v0")]
    before = file_bytes(p)
    if which == 0:
        key = bytes([ka] * 255) if klen == 255 else bytes([ka] * 256)      # concrete lengths, one symbolic byte repeated
        try:
            f.put(key, v)
        except Exception as e:
            if klen <= 255:
                return False
            ok = _view(f, base) and file_bytes(p) == before
            f.close()
            g = UKVFile(p, "r")
            ok = ok and _view(g, base)
            g.close()
            return ok
        if klen > 255:
            return False
        ok = _view(f, base + [(key, v)])
        f.close()
        g = UKVFile(p, "r")
        ok = ok and _view(g, base + [(key, v)])
        g.close()
        return ok
    if which == 1:
        try:
            f.put(b"k0", v)
            return False
        except KeyError:
            pass
        ok = _view(f, base) and file_bytes(p) == before
        f.close()
        return ok
    f.close()
    g = UKVFile(p, "r")
    try:
        g.put(kb, v)
        return False
    except UnsupportedOperation:
        pass
    ok = _view(g, base) and file_bytes(p) == before
    g.close()
    return ok


def h_headers(n1: int, n2: int, n3: int, nv: int, a: int, b: int, c: int, d: int, e: int, f: int, g: int, ka: int, x: int, y: int) -> bool:
    """
    File headers (h1, comment, descriptor block) survive reopen and append, up to the NUL padding `16s` defines.
    pre: 0 <= n1 <= 3 and 0 <= n2 <= 2 and 0 <= n3 <= 2 and 0 <= nv <= 2 and isbyte(a, b, c, d, e, f, g, ka, x, y)
    post: _
    """
    h1, h2, b0, k, v = mkb(n1, a, b, c), mkb(n2, d, e), mkb(n3, f, g), bytes([ka]), mkb(nv, x, y)
    p = new_path()
    f = UKVFile(p, "w", h1=h1, h2=h2, b0=b0)
    f.close()
    want_h1 = (h1 or UKVFile.FILE_H1_DEFAULT)
    want_h1 = want_h1 + b"\0" * (16 - len(want_h1))
    g = UKVFile(p, "a")
    ok = g.h1 == want_h1 and g.h2 == h2 and g.b0 == b0 and len(list(g.keys())) == 0
    g.put(k, v)
    g.close()
    r = UKVFile(p, "r")
    ok = ok and r.h1 == want_h1 and r.h2 == h2 and r.b0 == b0 and _view(r, [(k, v)])
    r.close()
    return ok


COLLKEYS = [("a", "b"), ("", "b"), ("a", ""), ("kkk", "\u00e9")]     # incl. the empty key and a non-ASCII key


def h_coll_buffer(bufsize: int, ksel: int, n1: int, n2: int, a: int, b: int, c: int, d: int, e: int, f: int, through_collection: bool) -> bool:
    """
    Collection / backend level with a symbolic buffer size (covers default -1, 0, small, large in one variable):
    inside the writing session every listed key is readable with its value; afterwards a fresh handle reads both.
    pre: -1 <= bufsize <= 200 and 0 <= ksel < len(COLLKEYS)
    pre: 0 <= n1 <= 3 and 0 <= n2 <= 3 and isbyte(a, b, c, d, e, f)
    post: _
    """
    v1, v2 = mkb(n1, a, b, c), mkb(n2, d, e, f)
    ka, kb = COLLKEYS[ksel]
    p = new_path()
    if through_collection:
        c = Collection(p, UkvCollectionBackend, readonly=False, bufsize=bufsize)
    else:
        c = UkvCollectionBackend(p, readonly=False, bufsize=bufsize)
    put = (lambda k, v: c.__setitem__(k, v)) if through_collection else c.put
    get = (lambda k: c[k]) if through_collection else c.get
    with c.writing():
        put(ka, v1)
        if not same_elems(list(c.keys()), [ka]) or get(ka) != v1:
            return False
        put(kb, v2)
        if not same_elems(list(c.keys()), [ka, kb]):
            return False
        for k in list(c.keys()):
            if get(k) != (v1 if k == ka else v2):
                return False
    d = Collection(p, UkvCollectionBackend, readonly=True)
    with d.reading():
        ok = same_elems(list(d.keys()), [ka, kb]) and d[ka] == v1 and d[kb] == v2
    return ok


def h_coll_dup(bufsize: int, n1: int, n2: int, a: int, b: int, c: int, d: int) -> bool:
    """
    A duplicate key put through a collection with an immediate-flush buffer fails at once and changes nothing.
    pre: -1 <= bufsize <= 0 and 0 <= n1 <= 2 and 0 <= n2 <= 2 and isbyte(a, b, c, d)
    post: _
    """
    v1, v2 = mkb(n1, a, b), mkb(n2, c, d)
    p = new_path()
    c = Collection(p, UkvCollectionBackend, readonly=False, bufsize=bufsize)
    with c.writing():
        c["a"] = v1
    before = file_bytes(p)
    failed = False
    try:
        with c.writing():
            c["a"] = v2
    except KeyError:
        failed = True
    if not failed or file_bytes(p) != before:
        return False
    with c.reading():
        return same_elems(list(c.keys()), ["a"]) and c["a"] == v1


def h_readonly_collection(nv: int, a: int, b: int) -> bool:
    """
    writing through a read-only collection is refused and leaves the file untouched
    pre: 0 <= nv <= 2 and isbyte(a, b)
    post: _
    """
    v = mkb(nv, a, b)
    p = new_path()
    c = Collection(p, UkvCollectionBackend, readonly=False)
    with c.writing():
        c["a"] = b"1"
    before = file_bytes(p)
    r = Collection(p, UkvCollectionBackend, readonly=True)
    try:
        with r.writing():
            r["b"] = v
        return False
    except (UnsupportedOperation, IOError):
        pass
    try:
        with r.reading():
            r["b"] = v
        return False
    except (UnsupportedOperation, IOError):
        pass
    with r.reading():
        ok = same_elems(list(r.keys()), ["a"]) and r["a"] == b"1"
    return ok and file_bytes(p) == before


def h_live_reader(nprior: int, nput: int, cut: int, nk: int, ka: int, kb: int, nv: int, x: int, y: int, z: int) -> bool:
    """
    a second handle opened while a writer still holds its handle open: of the bytes the writer has written, any prefix may have reached the file
    (buffered stream, program order).  Whatever the reader lists is a key of a successful put and reads back exactly; once the writer has closed, a
    fresh handle sees everything
    pre: 0 <= nprior <= 1 and 1 <= nput <= 2 and 0 <= cut <= 40 and 1 <= nk <= 2 and 0 <= nv <= 3 and isbyte(ka, kb, x, y, z)
    post: _
    """
    from harness.C03 import crash_image, _listed_ok
    k1 = mkb(nk, ka, kb)
    v1 = mkb(nv, x, y, z)
    if k1 == b"P" or k1 == b"Q":
        return True
    prior = [(b"P", b"pv")][:nprior]
    session = [(k1, v1), (b"Q", b"qv")][:nput]
    p = new_path()
    f = UKVFile(p, "w")
    for k, v in prior:
        f.put(k, v)
    f.close()
    pre = file_bytes(p)
    clear_writes()
    w = UKVFile(p, "a")
    for k, v in session:
        w.put(k, v)
    w.close()
    full = file_bytes(p)
    log = writes_log()
    total = sum(len(d) for _, d in log if d is not None)
    if cut > total:
        return True
    img = None
    for c_ in range(total + 1):
        if cut == c_:
            img = crash_image(pre, log, c_)
            break
    q = new_path()
    set_file_bytes(q, img)
    r = UKVFile(q, "r")                       # the reader, while the writer's tail is still in its buffer
    if not _listed_ok(r, prior, session):
        return False
    r.close()
    set_file_bytes(q, full)                   # the writer has closed
    r2 = UKVFile(q, "r")
    ok = _listed_ok(r2, prior + session, [])
    r2.close()
    return ok


def h_failed_put_foreign(kind: int, nother: int, first_use: bool, bufsel: int, nfail: int) -> bool:
    """
    a put that fails on one handle (oversize key, failing encoder after a queued put, duplicate key), then 0-3 inserts through another handle on
    the same path, then the first handle again: every handle's listing is exactly the set of successfully put keys and each listed key is readable
    pre: 0 <= kind <= 2 and 0 <= nother <= 3 and 0 <= bufsel <= 1 and 1 <= nfail <= 2
    post: _
    """
    from harness.C04 import scn_failed_then_others
    return scn_failed_then_others(kind, nother, first_use, bufsel, nfail)


def h_sessions(s1: int, s2: int, s3: int, nv: int, a: int) -> bool:
    """
    Session-granularity histories over two long-lived collection handles, three sessions; each session selector encodes
    (handle, read | write, key index).  [selector-bound]
    pre: 0 <= s1 < 8 and 0 <= s2 < 8 and 0 <= s3 < 8 and 0 <= nv <= 1 and isbyte(a)
    pre: SPLIT < 0 or s1 == SPLIT
    post: _
    """
    v = mkb(nv, a)
    p = new_path()
    hs = [Collection(p, UkvCollectionBackend, readonly=False), Collection(p, UkvCollectionBackend, readonly=False)]
    ref = []
    names = ["a", "b"]
    for step, s in enumerate((s1, s2, s3)):
        h = hs[s & 1]
        write = (s >> 1) & 1
        key = names[(s >> 2) & 1]
        val = v + bytes([48 + step])
        if write:
            dup = any(key == k for k, _ in ref)
            try:
                with h.writing():
                    h[key] = val
                if dup:
                    return False
                ref.append((key, val))
            except KeyError:
                if not dup:
                    return False
        else:
            with h.reading():
                if not same_elems(list(h.keys()), [k for k, _ in ref]):
                    return False
                for k, x in ref:
                    if h[k] != x:
                        return False
    for h in hs:
        with h.reading():
            if not same_elems(list(h.keys()), [k for k, _ in ref]):
                return False
            for k, x in ref:
                if h[k] != x:
                    return False
    return True


ENCODED = [
    "molli.storage.ukvfile.UKVFile.__init__", "molli.storage.ukvfile.UKVFile.open", "molli.storage.ukvfile.UKVFile.close",
    "molli.storage.ukvfile.UKVFile.write_header", "molli.storage.ukvfile.UKVFile.read_header", "molli.storage.ukvfile.UKVFile.map_blocks",
    "molli.storage.ukvfile.UKVFile.get", "molli.storage.ukvfile.UKVFile.put", "molli.storage.ukvfile.UKVFile.keys",
    "molli.storage.ukvfile.UKVFile._pack_write", "molli.storage.ukvfile.UKVFile._unpack_read", "molli.storage.ukvfile.UKVRecord",
    "molli.storage.backends.CollectionBackendBase.reading", "molli.storage.backends.CollectionBackendBase.writing",
    "molli.storage.backends.CollectionBackendBase.put", "molli.storage.backends.CollectionBackendBase.get",
    "molli.storage.backends.CollectionBackendBase.flush", "molli.storage.backends.UkvCollectionBackend.__init__",
    "molli.storage.backends.UkvCollectionBackend.begin_read", "molli.storage.backends.UkvCollectionBackend.begin_write",
    "molli.storage.backends.UkvCollectionBackend.update_keys", "molli.storage.backends.UkvCollectionBackend._write",
    "molli.storage.backends.UkvCollectionBackend._read", "molli.storage.collection.Collection.__getitem__",
    "molli.storage.collection.Collection.__setitem__", "molli.storage.collection.Collection.keys",
]


def run(rep, tier):
    from engine import xh
    rep.encoded = ENCODED
    rep.models_validated = E.validate_storage_models()
    rep.bounds = {"records": "<= 3 per file", "key bytes": "1..2 symbolic (+ 255/256-byte keys of one repeated symbolic byte)",
                  "value bytes": "0..3 symbolic", "bufsize": "symbolic int in [-1, 200]", "handles": "<= 3 (+ a reader opened while a writer's last 0..all bytes are still buffered)", "sessions": "<= 3 (thorough 4)",
                  "header fields": "h1 <= 3 B, comment <= 2 B, descriptor block <= 2 B"}
    rep.outside = ["values of kB size and 255-byte key *contents* (only the length boundary is symbolic)", "Dir/Zip/Tar back ends",
                   "buffer sizes above 200", "overwrite ('w') of a file another live handle has cached", "histories longer than the bound"]
    rep.assumptions = ["PyStruct/MemStream/FakePath/AssocDict/RWLock models stand for struct, binary files, pathlib, dict and fasteners (validated on this run; counterexamples are replayed on the real ones)",
                       "the byte stream reaches the file in program order"]
    q = tier == "quick"
    specs = [
        *[{"fn": "h_ukv_step", "timeout": 240 if q else 900, "split": c, "env": {"XH_MAXV": "1" if q else "2"}} for c in range(len(SCEN))],
        {"fn": "h_ukv_failed_ops", "timeout": 120},
        {"fn": "h_ukv_dup", "timeout": 120},
        {"fn": "h_headers", "timeout": 120},
        {"fn": "h_coll_buffer", "timeout": 180},
        {"fn": "h_coll_dup", "timeout": 120},
        {"fn": "h_readonly_collection", "timeout": 60},
        {"fn": "h_live_reader", "timeout": 240},
        {"fn": "h_failed_put_foreign", "timeout": 300},
    ] + [{"fn": "h_sessions", "timeout": 240, "split": s} for s in range(8)]
    xh.run_obligations(rep, "harness.C02", specs)
    xh.known_witness(rep, "harness.C02")
