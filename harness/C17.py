"""C17 — a job runs exactly what was asked and reports exactly what happened (XH: Job.__get__ binding over driver instances; the real run_local
body against a process / filesystem model with symbolic return codes, file bits, fault position)."""
import os, sys, types, shlex, tempfile, shutil
from typing import Optional
import numpy as np
import molli as ml
import molli.pipeline.runner as RUN
import molli.pipeline.job as JOB
from molli.pipeline.job import Job, JobInput, JobOutput
from molli.pipeline.driver import DriverBase
from molli.pipeline.xtb import XTBDriver
from molli.chem import Atom, Molecule, ConformerEnsemble

REAL = os.environ.get("XH_REAL") == "1"
HAS_REAL = True
SPLIT = int(os.environ.get("XH_SPLIT", "-1"))


def pick(sel, n):
    for i in range(n):
        if sel == i:
            return i
    return 0


# ----------------------------------------------------------------------------------------------------------- part A: driver binding
EXES = ["/opt/a/prog", "/opt/b/prog-2", "prog3"]
ENVS = [{"OMP": "1"}, {"OMP": "8", "LIC": "x"}, None]


class Drv(DriverBase):
    default_executable = "prog"

    @Job(return_files=("out.txt",)).prep
    def calc(self, x, extra: str = "e"):
        # the settings travel unformatted (ints stay ints), so that the solver compares numbers, not rendered strings
        return JobInput(jid=str(extra), commands=[(self.executable, "calc")], files={"nprocs": self.nprocs, "x": x},
                        return_files=self.return_files, envars=dict(self.envars or {}))

    @calc.post
    def calc(self, out, x, **kw):
        return out

    many = Job.vectorize(calc)

    @many.reduce
    def many(self, outs, xs, *a, **k):
        return list(outs)


class DrvFixed(DriverBase):
    """a driver whose job pins its own executable and processor count (job-level override)"""
    default_executable = "prog"

    @Job(return_files=(), executable="/pinned/exe", nprocs=3, envars={"PIN": "1"}).prep
    def calc(self, x):
        return JobInput(jid="j", commands=[(self.executable, None)], files={"nprocs": self.nprocs, "x": x}, return_files=self.return_files, envars=dict(self.envars or {}))


ORDERS = [(0, 1), (1, 0), (0, 1, 0), (1, 0, 1), (0, 1, 2), (2, 1, 0), (1, 2, 0, 1), (0, 0, 1), (2, 0, 2, 1)]


def h_bind(order: int, n0: Optional[int], n1: Optional[int], n2: Optional[int], e_shift: int, vec: int, arg: int) -> bool:
    """
    2..3 driver instances with distinct executables, symbolic processor counts and environments, used in every listed order (with repeats):
    each JobInput carries the settings of the instance it was built through and the caller's argument
    pre: 0 <= order < len(ORDERS) and 0 <= e_shift <= 2 and 0 <= vec <= 1 and 0 <= arg <= 9
    pre: (n0 is None or 1 <= n0 <= 64) and (n1 is None or 1 <= n1 <= 64) and (n2 is None or 1 <= n2 <= 64)
    pre: SPLIT < 0 or order == SPLIT
    post: _
    """
    seq = ORDERS[pick(order, len(ORDERS))]
    sh = pick(e_shift, 3)
    ns = [n0, n1, n2]
    drivers = []
    for i in range(3):
        kw = dict(executable=EXES[(i + sh) % 3], envars=ENVS[(i + sh) % 3], check_exe=False, find=False)
        if ns[i] is not None:
            kw["nprocs"] = ns[i]
        drivers.append(Drv(**kw))
    for step, i in enumerate(seq):
        d = drivers[i]
        want_n = 1 if ns[i] is None else ns[i]
        want_env = dict(ENVS[(i + sh) % 3] or {})
        x = arg + step
        if pick(vec, 2) == 0:
            inps = [d.calc.prepare(x, extra="zz")]
            xs = [x]
        else:
            xs = [x, x + 100]
            inps = list(d.many.prepare(xs, extra="zz"))
            if len(inps) != 2:
                return False
        for inp, xx in zip(inps, xs):
            if inp.commands != [(EXES[(i + sh) % 3], "calc")] or inp.files["nprocs"] != want_n or inp.files["x"] != xx:
                return False
            if dict(inp.envars or {}) != want_env or inp.jid != "zz" or tuple(inp.return_files) != ("out.txt",):
                return False
    return True


def h_bind_seq(n0: Optional[int], n1: Optional[int], n2: Optional[int], e_shift: int, vec: int, reassign: bool, rounds: int) -> bool:
    """
    short-lived drivers: each driver is created, used and dropped before the next one (with other settings) is created, for 1-2 rounds over
    the three settings; optionally a setting of a live driver is reassigned between two uses.  Every JobInput carries the settings of the
    instance it is built through, as they are at that moment
    pre: 0 <= e_shift <= 2 and 0 <= vec <= 1 and 1 <= rounds <= 2
    pre: (n0 is None or 1 <= n0 <= 64) and (n1 is None or 1 <= n1 <= 64) and (n2 is None or 1 <= n2 <= 64)
    post: _
    """
    sh = pick(e_shift, 3)
    ns = [n0, n1, n2]
    for step in range(3 * pick(rounds - 1, 2) + 3):
        i = step % 3
        kw = dict(executable=EXES[(i + sh) % 3], envars=ENVS[(i + sh) % 3], check_exe=False, find=False)
        if ns[i] is not None:
            kw["nprocs"] = ns[i]
        d = Drv(**kw)
        want_n = 1 if ns[i] is None else ns[i]
        for use in range(2):
            if pick(vec, 2) == 0:
                inps = [d.calc.prepare(step, extra="zz")]
            else:
                inps = list(d.many.prepare([step], extra="zz"))
            for inp in inps:
                if inp.commands != [(d.executable, "calc")] or inp.files["nprocs"] != want_n or dict(inp.envars or {}) != dict(ENVS[(i + sh) % 3] or {}):
                    return False
            if not reassign:
                break
            d.nprocs = want_n = want_n + 1                     # the driver's settings change while it is alive
            d.executable = EXES[(i + sh + 1) % 3]
        del d
    return True


def h_bind_fixed(n0: int, n1: int, first: int) -> bool:
    """
    job-level settings (executable, nprocs, envars pinned on the Job) win over the instance's for every instance; instance envars are merged in
    pre: 1 <= n0 <= 64 and 1 <= n1 <= 64 and 0 <= first <= 1
    post: _
    """
    ds = [DrvFixed(executable=EXES[0], nprocs=n0, envars={"A": "0"}, check_exe=False, find=False), DrvFixed(executable=EXES[1], nprocs=n1, envars={"A": "1"}, check_exe=False, find=False)]
    seq = (0, 1, 0) if pick(first, 2) == 0 else (1, 0, 1)
    for i in seq:
        inp = ds[i].calc.prepare(7)
        if inp.commands != [("/pinned/exe", None)] or inp.files != {"nprocs": 3, "x": 7}:
            return False
        if dict(inp.envars) != {"PIN": "1", "A": str(i)}:
            return False
    return True


def _mol(q, m):
    return Molecule([Atom("O"), Atom("H"), Atom("H")], name="w", charge=q, mult=m, coords=[[0, 0, 0], [0.96, 0, 0], [-0.24, 0.93, 0]])


QS, MS, CQS, CMS, NPS = [-1, 0, 1], [1, 2], [None, -1, 0, 1], [None, 1, 2], [1, 4]


def h_xtb(qs: int, ms: int, cqs: int, cms: int, which: int, n0s: int, order: int) -> bool:
    """
    the real XTBDriver: two instances with different executables / processor counts, used in either order; the command line carries that
    instance's executable and -P, and the caller's charge / multiplicity arguments (molecule's own when not given) [selector-bound: the
    driver renders its numbers into a command string]
    pre: 0 <= qs < len(QS) and 0 <= ms < len(MS) and 0 <= cqs < len(CQS) and 0 <= cms < len(CMS) and 0 <= which <= 1 and 0 <= n0s < len(NPS) and 0 <= order <= 1
    post: _
    """
    q, m, cq, cm = QS[pick(qs, len(QS))], MS[pick(ms, len(MS))], CQS[pick(cqs, len(CQS))], CMS[pick(cms, len(CMS))]
    n0 = NPS[pick(n0s, len(NPS))]
    n1 = 6 - n0
    ds = [XTBDriver(executable="/x/xtb-a", nprocs=n0, check_exe=False, find=False), XTBDriver(executable="/y/xtb-b", nprocs=n1, check_exe=False, find=False)]
    M = _mol(q, m)
    seq = (0, 1) if pick(order, 2) == 0 else (1, 0)
    for i in seq:
        job = ds[i].optimize_m if pick(which, 2) == 0 else ds[i].energy_m
        inp = job.prepare(M, charge=cq, mult=cm)
        (cmd, name), = inp.commands
        toks = cmd.split()
        if toks[0] != ["/x/xtb-a", "/y/xtb-b"][i] or name != "xtb":
            return False
        if toks[toks.index("-P") + 1] != str([n0, n1][i]):
            return False
        want_q = q if cq is None else cq
        want_u = (m if cm is None else cm) - 1
        if toks[toks.index("--charge") + 1] != str(want_q) or toks[toks.index("--uhf") + 1] != str(want_u):
            return False
        if inp.files["input.xyz"] != M.dumps_xyz().encode():
            return False
    return True


# --------------------------------------------------------------------------------------------------------- part B: run_local on a world model
class World:
    def __init__(self):
        self.files = {}          # absolute path -> str | bytes
        self.cwd = "/home/user"
        self.tmp_created, self.tmp_removed = [], []
        self.ran = []            # (argv, cwd, env, snapshot of files in cwd)
        self.dumped = None
        self.mkdirs = []


W = None
SCRIPT = None


def ap(p):
    p = str(p)
    if p.startswith("./"):
        p = p[2:]
    return p if p.startswith("/") else W.cwd.rstrip("/") + "/" + p


class FPath:
    def __init__(self, p):
        p = str(p)
        self.p = p[2:] if p.startswith("./") and len(p) > 2 else p

    def __truediv__(self, o):
        return FPath(self.p.rstrip("/") + "/" + str(o))

    def __str__(self):
        return self.p

    def __fspath__(self):
        return self.p

    def mkdir(self, parents=False, exist_ok=False):
        W.mkdirs.append(self.p)

    def is_file(self):
        return ap(self.p) in W.files

    def read_bytes(self):
        c = W.files[ap(self.p)]
        return c.encode() if isinstance(c, str) else c

    @property
    def stem(self):
        return self.p.rsplit("/", 1)[-1].rsplit(".", 1)[0]


class FFile:
    def __init__(self, path, mode):
        self.path, self.mode = ap(path), mode

    def __enter__(self):
        if "w" in self.mode:
            W.files[self.path] = "" if "t" in self.mode else b""
        elif self.path not in W.files:
            raise FileNotFoundError(self.path)
        return self

    def __exit__(self, *a):
        return False

    def write(self, s):
        W.files[self.path] = W.files[self.path] + s

    def read(self):
        return W.files[self.path]


def fopen(path, mode="rt"):
    return FFile(path, mode)


class FTmp:
    def __init__(self, dir=None, prefix=""):
        self.name = str(dir).rstrip("/") + "/" + prefix + "T0"

    def __enter__(self):
        W.tmp_created.append(self.name)
        return self.name

    def __exit__(self, *a):
        W.tmp_removed.append(self.name)
        for k in list(W.files):
            if k.startswith(self.name + "/"):
                del W.files[k]
        return False


class FOS:
    environ = {"PATH": "/bin", "X": "base"}

    @staticmethod
    def getcwd():
        return W.cwd

    @staticmethod
    def chdir(p):
        W.cwd = str(p)


class Proc:
    def __init__(self, rc):
        self.returncode = rc


def frun(argv, cwd=None, env=None, stderr=None, stdout=None, encoding=None):
    i = len(W.ran)
    here = str(cwd).rstrip("/") + "/"
    W.ran.append((list(argv), str(cwd), dict(env), {k[len(here):]: v for k, v in W.files.items() if k.startswith(here)}))
    rc, makes = SCRIPT[i]
    if hasattr(stdout, "write"):
        stdout.write(f"out{i}")
        stderr.write(f"err{i}")
    for fn in makes:
        W.files[here + fn] = b"DATA:" + fn.encode()
    return Proc(rc)


_SAVED = {}


def install(job, stem="j1"):
    for n in ("Path", "TemporaryDirectory", "os", "run", "arg_parser", "ml"):
        _SAVED.setdefault(n, getattr(RUN, n))
    RUN.Path, RUN.TemporaryDirectory, RUN.os, RUN.run = FPath, FTmp, FOS, frun
    RUN.open = fopen
    RUN.arg_parser = types.SimpleNamespace(parse_args=lambda: types.SimpleNamespace(job=FPath(f"/in/{stem}.inp"), output_dir="/out", scratch_dir="/scr"))

    class JI:
        @staticmethod
        def load(fn):
            return job

    class JO(JobOutput):
        def dump(self, fn):
            W.dumped = (str(fn), self)
    RUN.ml = types.SimpleNamespace(pipeline=types.SimpleNamespace(JobInput=JI, JobOutput=JO))


def uninstall():
    for n, v in _SAVED.items():
        setattr(RUN, n, v)
    if "open" in vars(RUN):
        del RUN.open


RET = [("r0", "r1"), ("r0",), (), None, ("sub/r0", "r1")]
FILES = [{"a.txt": "hello", "b.bin": b"\x00\x01\xff"}, {"only.txt": "t"}, None, {}]
ENVOV = [{"X": "1"}, None, {"X": "over", "Y": "2"}]


def _cmd(i, rc, makes):
    """a real shell command with the scripted behaviour (the model ignores its text; the real replay executes it)"""
    mk = "; ".join([f"mkdir -p $(dirname {f}) && printf 'DATA:{f}' > {f}" for f in makes])
    # the real replay also records the environment each command sees (X, Y: the overridable variables) in a side file named by $VERIF_ENVLOG
    return f"sh -c \"printf out{i}; printf err{i} >&2; printf '%s,%s;' \\\"$X\\\" \\\"$Y\\\" >> $VERIF_ENVLOG; {mk + '; ' if mk else ''}{'kill -9 $$' if isinstance(rc, int) and rc < 0 else f'exit {rc}'}\""


def _mk_job(n, named_mask, retsel, filesel, envsel, rcs, makes_last):
    cmds = []
    first_fail = next((i for i, r in enumerate(rcs) if r != 0), None)
    last = (n - 1) if first_fail is None else first_fail
    for i in range(n):
        # the model ignores the command text (scripted by SCRIPT); only the real replay needs the return code inside the shell command
        cmds.append((_cmd(i, rcs[i] if REAL else "RC", makes_last if i == last else []), f"n{i}" if (named_mask >> i) & 1 else None))
    return dict(jid="jid", commands=cmds, files=FILES[filesel], return_files=RET[retsel], envars=ENVOV[envsel]), first_fail, last


# (requested files, input files, environment override): every pair of values occurs in some row
CFGS = [(0, 0, 0), (1, 1, 1), (2, 2, 2), (3, 3, 0), (4, 0, 1), (0, 1, 2), (1, 2, 0), (2, 3, 1), (3, 0, 2), (4, 1, 0), (0, 2, 1), (1, 3, 2), (2, 0, 0), (3, 1, 1), (4, 2, 2), (0, 3, 0), (1, 0, 2), (2, 1, 0), (3, 2, 1), (4, 3, 2)]


NCFG = 8 if os.environ.get("XH_QUICK") == "1" else len(CFGS)


NC = (SPLIT // 8) if SPLIT >= 8 else 2            # number of commands and named/unnamed pattern residue of this process (XH_SPLIT = 8 * n + r)
NR = (SPLIT % 8) if SPLIT >= 8 else 1


def h_run(fail_at: int, rc: int, f0: bool, f1: bool, hi: int, cfg: int) -> bool:
    """
    the real run_local body: NC (1..4, per process) commands, each possible first-failure position (fail_at == NC: none fails) with a symbolic
    non-zero return code, named/unnamed pattern NR + 8 * hi, each subset of requested files produced, text / binary / no input files,
    environment overrides, no files requested (() and None)
    pre: 0 <= fail_at <= NC and 0 <= hi and NR + 8 * hi < 2 ** NC and 0 <= cfg < NCFG
    pre: -2 <= rc <= 2 and rc != 0
    post: _
    """
    n = NC
    named = NR + 8 * pick(hi, 2)
    fa = pick(fail_at, 5)
    retsel, filesel, envsel = CFGS[pick(cfg, len(CFGS))]
    rcs = [(rc if i == fa else 0) for i in range(n)]
    if REAL:
        rcs = [(-9 if int(r) < 0 else int(r) % 256) for r in rcs]        # a negative return code is a death by signal: the real command kills itself
    ret = RET[retsel] or ()
    makes = [f for f, bit in zip(ret, (f0, f1)) if bit]
    spec, first_fail, last = _mk_job(n, named, retsel, filesel, envsel, rcs, makes)
    return _run_and_check(spec, n, rcs, first_fail, makes, ret)


def _run_and_check(spec, n, rcs, first_fail, makes, ret):
    global W, SCRIPT
    job0 = JobInput(**spec)
    cmds = spec["commands"]
    if REAL:
        return _real_run(job0, spec, n, rcs, first_fail, makes, ret)
    jhash = "H:" + spec["jid"]          # the model only checks that the hash of the loaded job is passed through; the real sha3/msgpack hash is checked in the real replay

    class JI2(JobInput):
        hash = property(lambda self: jhash)
    job = JI2(**spec)
    W = World()
    last = (n - 1) if first_fail is None else first_fail
    SCRIPT = [(rcs[i], makes if i == last else []) for i in range(n)]
    install(job)
    try:
        try:
            RUN.run_local()
            code = "returned"
        except SystemExit as e:
            code = e.code
    finally:
        uninstall()
    n_runs = n if first_fail is None else first_fail + 1
    if len(W.ran) != n_runs:
        return False                                             # stops at the first failing command, runs all otherwise
    if W.tmp_created != W.tmp_removed or len(W.tmp_created) != 1 or W.cwd != "/home/user":
        return False                                             # scratch directory removed, cwd restored
    scratch = W.tmp_created[0]
    if not scratch.startswith("/scr/jid__") or any(k.startswith("/scr/") for k in W.files):
        return False                                             # private directory under the scratch dir, no residue
    want_env = dict(FOS.environ, **(spec["envars"] or {}))
    want_files = {k: v for k, v in (spec["files"] or {}).items()}
    for i in range(n_runs):
        argv, cwd, env, present = W.ran[i]
        if argv != shlex.split(cmds[i][0]) or cwd != scratch or env != want_env:
            return False                                         # commands in order, in the scratch directory, with the merged environment
        for fn, fc in want_files.items():
            if present.get(fn) != fc:
                return False                                     # input files materialised before the commands run (text as text, bytes as bytes)
    if W.dumped is None:
        return False
    path, out = W.dumped
    if path != "/out/j1.out" or out.input_hash != jhash:
        return False
    want_out = {cmds[i][1]: f"out{i}" for i in range(n_runs) if cmds[i][1] is not None}
    want_err = {cmds[i][1]: f"err{i}" for i in range(n_runs) if cmds[i][1] is not None}
    if out.stdouts != want_out or out.stderrs != want_err:
        return False
    if out.files != {f: b"DATA:" + f.encode() for f in makes}:
        return False                                             # requested files byte for byte, nothing else
    if out.exitcode != rcs[n_runs - 1]:
        return False
    all_ok = first_fail is None and set(makes) == set(ret)
    return (code == 0) == all_ok and code != "returned"


def _real_run(job0, spec, n, rcs, first_fail, makes, ret):
    """the same scenario with real processes, real files and the real msgpack round trip of the job file"""
    base = tempfile.mkdtemp(prefix="c17_")
    saved = (RUN.arg_parser, os.getcwd(), os.environ.get("X"))
    os.environ["X"] = "base"
    os.environ["VERIF_ENVLOG"] = f"{base}/envlog"
    os.environ.pop("Y", None)
    try:
        os.makedirs(f"{base}/in")
        job0.dump(f"{base}/in/j1.inp")
        from pathlib import Path
        RUN.arg_parser = types.SimpleNamespace(parse_args=lambda: types.SimpleNamespace(job=Path(f"{base}/in/j1.inp"), output_dir=f"{base}/out", scratch_dir=f"{base}/scr"))
        try:
            RUN.run_local()
            code = "returned"
        except SystemExit as e:
            code = e.code
        if os.getcwd() != saved[1]:
            return False
        if os.listdir(f"{base}/scr"):
            return False
        if not os.path.isfile(f"{base}/out/j1.out"):
            return False
        out = JobOutput.load(f"{base}/out/j1.out")
        n_runs = n if first_fail is None else first_fail + 1
        cmds = spec["commands"]
        want_out = {cmds[i][1]: f"out{i}" for i in range(n_runs) if cmds[i][1] is not None}
        want_err = {cmds[i][1]: f"err{i}" for i in range(n_runs) if cmds[i][1] is not None}
        if out.stdouts != want_out or out.stderrs != want_err:
            return False
        if out.files != {f: b"DATA:" + f.encode() for f in makes}:
            return False
        if out.input_hash != job0.hash or out.exitcode != rcs[n_runs - 1]:
            return False
        want_env = dict({"X": "base"}, **(spec["envars"] or {}))
        seen = open(f"{base}/envlog").read().split(";")[:-1] if os.path.isfile(f"{base}/envlog") else []
        if seen != [f"{want_env.get('X', '')},{want_env.get('Y', '')}"] * n_runs:
            return False                                         # every command saw the process environment overridden by the job's variables
        all_ok = first_fail is None and set(makes) == set(ret)
        return (code == 0) == all_ok and code != "returned"
    finally:
        RUN.arg_parser = saved[0]
        os.environ.pop("VERIF_ENVLOG", None)
        os.chdir(saved[1])
        if saved[2] is None:
            os.environ.pop("X", None)
        else:
            os.environ["X"] = saved[2]
        shutil.rmtree(base, ignore_errors=True)


def validate_models():
    """JobInput.hash / dump / load are C code (msgpack, sha3): exercised concretely outside the tracer.  Returns the number of round trips checked:
    hash(load(dump(job))) == hash(job) for every job shape the harness uses (tuples become lists, text and bytes files keep their type)"""
    d = tempfile.mkdtemp(prefix="c17v_")
    k = 0
    try:
        for n in range(1, 5):
            for named in (0, 5, 15):
                for retsel in range(len(RET)):
                    for filesel in range(len(FILES)):
                        spec, _, _ = _mk_job(n, named, retsel, filesel, (n + retsel) % len(ENVOV), [0] * n, list(RET[retsel] or ())[:1])
                        j = JobInput(**spec)
                        j.dump(f"{d}/x.inp")
                        j2 = JobInput.load(f"{d}/x.inp")
                        assert j2.hash == j.hash, "hash changes across dump/load"
                        assert (j2.files or {}) == (spec["files"] or {}) and [tuple(c) for c in j2.commands] == spec["commands"], "job file round trip"
                        k += 1
    finally:
        shutil.rmtree(d, ignore_errors=True)
    return k


ENCODED = ["molli.pipeline.job.Job.__get__", "molli.pipeline.job.Job._prepare", "molli.pipeline.job.Job._prepare_iter", "molli.pipeline.job.Job.vectorize", "molli.pipeline.job.JobInput",
           "molli.pipeline.runner.run_local", "molli.pipeline.driver.DriverBase.__init__", "molli.pipeline.xtb.XTBDriver.optimize_m", "molli.pipeline.xtb.XTBDriver.energy_m"]


def run(rep, tier):
    from engine import xh
    rep.encoded = ENCODED
    q = tier == "quick"
    rep.models_validated += validate_models()
    rep.bounds = {"binding": "short-lived drivers created, used and dropped one after another (1-2 rounds, optional reassignment of a live driver's settings); 3 driver instances (distinct executables, environments from a menu, processor counts symbolic in [1,64] or defaulted), 9 orders of use of length 2-4 with repeats, single and vectorised jobs, "
                             "job-level pinned settings; the real XTBDriver optimize_m / energy_m with symbolic molecule and caller charge / multiplicity (Optional, incl. 0)",
                  "run_local": "1-4 commands, each first-failure position (or none) with a symbolic non-zero return code in [-2,2], all named/unnamed patterns, requested-file sets {2 files, 1 file, (), None, nested path}, each subset produced, 4 input-file sets (text, bytes, none), 3 environment overrides"}
    rep.outside = ["real processes and the real filesystem in the symbolic runs (modelled; every counterexample is replayed with real sh processes, real files and the real msgpack job file)",
                   "msgpack / sha3 inside JobInput.hash, dump, load (exercised concretely: validate_models)", "Job.__call__, worker, the SGE runner", "timeouts (JobInput.timeout is not honoured by run_local and the property does not mention it)"]
    rep.assumptions = ["FakeProc world: subprocess.run returns the scripted code, writes out<i>/err<i> to the given streams and creates the scripted files in cwd; TemporaryDirectory removes its tree on exit; os.chdir/getcwd are a variable"]
    env = {"XH_QUICK": "1"} if q else {}
    specs = [{"fn": "h_bind", "timeout": 900, "split": s} for s in range(len(ORDERS))] + [{"fn": "h_bind_fixed", "timeout": 600}, {"fn": "h_bind_seq", "timeout": 600}, {"fn": "h_xtb", "timeout": 900}]
    # split = 8 * (number of commands) + (named/unnamed pattern mod 8): one process per pattern residue that exists for that length
    specs += [{"fn": "h_run", "timeout": 900 if q else 3000, "split": 8 * n + r, "env": env} for n in range(1, 5) for r in range(min(8, 2 ** n))]
    xh.run_obligations(rep, "harness.C17", specs)
