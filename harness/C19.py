"""C19 — distance kernels and grid descriptors equal their mathematical definition.

IRFP: euclidean2 / euclidean <float|double, 3> from the LLVM IR of the current distance.cpp, over symbolic IEEE inputs, against the sequential spec.
SR:   rectangular_grid with symbolic corners / padding / spacing; nearest_atom_index and prune on a KD-tree contract with symbolic coordinates,
      cut-off and eps; aso / aeif / atomic_indicator_field with the kernel replaced by its contract, symbolic coordinates and weights."""
import os, math, itertools, warnings
from fractions import Fraction
import numpy as np
import z3
import molli as ml
import molli.descriptor.gridbased as GB
from molli.chem import Atom, Structure, ConformerEnsemble
from engine import sr, irfp
from engine.sr import CTX, SR, SB, vec, E
from engine.common import Obligation

# ================================================================================================================================== IRFP
DRIVER = '''#include "%s/molli_xt/distance.cpp"
extern "C" float k_eu2_f(const float*a,const float*b){ return molli::euclidean2<float,3>(a,b);}
extern "C" double k_eu2_d(const double*a,const double*b){ return molli::euclidean2<double,3>(a,b);}
extern "C" float k_eu_f(const float*a,const float*b){ return molli::euclidean<float,3>(a,b);}
extern "C" double k_eu_d(const double*a,const double*b){ return molli::euclidean<double,3>(a,b);}
using namespace molli;
#define W22(NAME, T, K) extern "C" void NAME(T*a, ssize_t L1, T*b, ssize_t L2){ carray<T> A(a,L1,3,1), B(b,L2,3,1); cdist22<T, K<T,3>>(A,B); }
#define W32(NAME, T, K) extern "C" void NAME(T*a, ssize_t X, ssize_t L1, T*b, ssize_t L2){ carray<T> A(a,X,L1,3), B(b,L2,3,1); cdist32<T, K<T,3>>(A,B); }
W22(w22_eu_f, float, euclidean) W22(w22_eu_d, double, euclidean) W22(w22_eu2_f, float, euclidean2) W22(w22_eu2_d, double, euclidean2)
W32(w32_eu_f, float, euclidean) W32(w32_eu_d, double, euclidean) W32(w32_eu2_f, float, euclidean2) W32(w32_eu2_d, double, euclidean2)
'''


def _spec(a, b, sort, root):
    rm = z3.RNE()
    acc = z3.FPVal(0.0, sort)
    for i in range(3):
        d = z3.fpSub(rm, a[i], b[i])
        acc = z3.fpAdd(rm, acc, z3.fpMul(rm, d, d))
    return z3.fpSqrt(rm, acc) if root else acc


def native_replay(fname, x, l1, l2):
    """the wrapper compiled to machine code and run on concrete, pairwise different rows; compared with the plain numpy evaluation"""
    rank32, root, dbl = fname.startswith("w32"), "_eu_" in fname, fname.endswith("d")
    rng = np.random.default_rng(11)
    dt = np.float64 if dbl else np.float32
    a = rng.integers(-8, 9, size=((x if rank32 else 1) * l1, 3)).astype(dt) / dt(4)
    b = rng.integers(-8, 9, size=(l2, 3)).astype(dt) / dt(4) + dt(0.125)
    try:
        got = irfp.native_run(DRIVER % repo_root(), fname, x, l1, l2, a.ravel(), b.ravel(), repo=repo_root())
    except irfp.IRError as e:
        return None, str(e)
    ref = ((a[:, None, :] - b[None, :, :]) ** 2).sum(-1)
    ref = (np.sqrt(ref) if root else ref).ravel()
    got = np.array(got, dtype=float)
    where = f"{fname} on shapes X={x}, L1={l1}, L2={l2}, a={a.tolist()}, b={b.tolist()}"
    if got.shape != ref.shape:
        return False, where + f": {got.size} result cells, numpy gives {ref.size}"
    if not np.allclose(got, ref, rtol=1e-6, atol=1e-6, equal_nan=False):
        return False, where + f": native result {got.tolist()} (nan = never written), numpy gives {ref.tolist()}"
    return True, where + ": native result equals numpy"


def run_irfp_loops(rep, ll, tier):
    """cdist22 / cdist32 of the current source: for every shape within the bound the result buffer has one cell per (conformer,) row pair, each
    written exactly once with the kernel value of that pair, all loads and stores in bounds (integers concrete, FP contents symbolic)"""
    S = 3 if tier == "quick" else 5
    for rank in (22, 32):
        for ty in ("float", "double"):
            for root in (False, True):
                fname = f"w{rank}_{'eu' if root else 'eu2'}_{'f' if ty == 'float' else 'd'}"
                sort = irfp.SORTS[ty]
                shapes = [(x, l1, l2) for x in ((1,) if rank == 22 else range(0, 3 if tier == 'quick' else 4)) for l1 in range(0, S + 1) for l2 in range(0, S + 1)]
                ob = rep.add(Obligation(name=f"irfp/cdist{rank}<{ty},{'euclidean' if root else 'euclidean2'}>: every cell = kernel(row pair), written once, in bounds; shapes X<={2 if tier == 'quick' else 3}, L1,L2<={S}", engine="IRFP", paths=len(shapes)))
                t0, bad, cells = 0.0, None, 0
                try:
                    for (x, l1, l2) in shapes:
                        M = irfp.Machine(ll, max_steps=200000)
                        A = [z3.FP(f"a{i}", sort) for i in range(x * l1 * 3)]
                        B = [z3.FP(f"b{i}", sort) for i in range(l2 * 3)]
                        pa, pb = M.buffer("A", A), M.buffer("B", B)
                        M.call(fname, [pa, l1, pb, l2] if rank == 22 else [pa, x, l1, pb, l2])
                        R = M.mem.get("R")
                        if R is None or len(R) != x * l1 * l2 or any(w != 1 for w in M.writes["R"]):
                            bad = f"shape {(x, l1, l2)}: result cells {None if R is None else len(R)}, store counts {M.writes.get('R')}"
                            break
                        diffs = []
                        for c in range(x):
                            for i in range(l1):
                                for j in range(l2):
                                    want = _spec(A[(c * l1 + i) * 3:(c * l1 + i) * 3 + 3], B[j * 3:j * 3 + 3], sort, root)
                                    diffs.append(z3.Not(irfp.fp_equal(R[(c * l1 + i) * l2 + j], want)))
                                    cells += 1
                        if diffs:
                            r, dt, model = irfp.decide(z3.Or(*diffs), 120)
                            t0 += dt
                            if r != "unsat":
                                bad = f"shape {(x, l1, l2)}: solver answered {r} for 'some cell differs from the kernel value of its row pair'"
                                break
                except irfp.IRError as e:
                    bad = f"IR interpreter: {e}"
                ob.solver_s = t0
                if bad is None:
                    ob.status, ob.detail, ob.twin = "discharged", f"{len(shapes)} shapes, {cells} cells, all unsat", "n/a"
                elif bad.startswith("IR interpreter"):
                    ob.status, ob.detail = "inconclusive", bad
                else:
                    # replay on real code: the same templates compiled natively by the real compiler and run on concrete rows, against numpy
                    ok, detail = native_replay(fname, x, l1, l2)
                    if ok is False:
                        ob.status, ob.detail, ob.replay = "violated", bad + " | " + detail, "reproduced (native build of the current distance.cpp)"
                        path = rep.write_replay({"engine": "IRFP", "module": "harness.C19", "label": "irfp-loops", "goal": fname, "shape": [x, l1, l2], "observed": detail})
                        rep.violations.append((f"{ob.name}: {detail}", path))
                    else:
                        ob.status, ob.detail = "inconclusive", bad + " | native replay: " + detail


def repo_root():
    return os.path.dirname(os.path.dirname(os.path.abspath(ml.__file__)))


def run_irfp(rep, tier):
    ll = irfp.compile_ir(DRIVER % repo_root(), repo=repo_root())
    for fname, ty, root in (("k_eu2_f", "float", False), ("k_eu2_d", "double", False), ("k_eu_f", "float", True), ("k_eu_d", "double", True)):
        sort = irfp.SORTS[ty]
        M = irfp.Machine(ll, max_steps=400)
        A = [z3.FP(f"a{i}", sort) for i in range(3)]
        B = [z3.FP(f"b{i}", sort) for i in range(3)]
        ob = rep.add(Obligation(name=f"irfp/{fname}: IR result == ((0 + d0*d0) + d1*d1) + d2*d2" + (" under sqrt" if root else "") + f" for all {ty} inputs (NaN/inf included)", engine="IRFP", paths=1))
        try:
            res = M.call(fname, [M.buffer("A", A), M.buffer("B", B)])
        except irfp.IRError as e:
            ob.status, ob.detail = "inconclusive", f"IR interpreter: {e}"
            continue
        rm = z3.RNE()
        spec = z3.FPVal(0.0, sort)
        for i in range(3):
            d = z3.fpSub(rm, A[i], B[i])
            spec = z3.fpAdd(rm, spec, z3.fpMul(rm, d, d))
        if root:
            spec = z3.fpSqrt(rm, spec)
        r, dt, model = irfp.decide(z3.Not(irfp.fp_equal(res, spec)), 120)
        ob.solver_s = dt
        if r == "unsat" and M.loads == 6:
            ob.status, ob.detail, ob.twin = "discharged", f"unsat; {M.steps} IR instructions executed, {M.loads} in-bounds loads (3 trips, unwinding exact)", "n/a"
        elif r == "sat":
            # replay on real code: the model's inputs through a native build of the current distance.cpp, against the float evaluation of the spec
            dt_np = np.float32 if ty == "float" else np.float64

            def fv(x):
                v = model.eval(x, model_completion=True)
                if z3.is_true(z3.simplify(z3.fpIsNaN(v))):
                    return float("nan")
                if z3.is_true(z3.simplify(z3.fpIsInf(v))):
                    return float("-inf") if z3.is_true(z3.simplify(z3.fpIsNegative(v))) else float("inf")
                q = z3.simplify(z3.fpToReal(v))
                return float(Fraction(q.numerator_as_long(), q.denominator_as_long()))
            a = np.array([[fv(x) for x in A]], dtype=dt_np)
            b = np.array([[fv(x) for x in B]], dtype=dt_np)
            wname = f"w22_{'eu' if root else 'eu2'}_{'f' if ty == 'float' else 'd'}"
            try:
                got = dt_np(irfp.native_run(DRIVER % repo_root(), wname, 1, 1, 1, a.ravel(), b.ravel(), repo=repo_root())[0])
            except (irfp.IRError, IndexError) as e:
                ob.status, ob.detail = "inconclusive", f"sat, native replay failed: {e}"
                continue
            with np.errstate(all="ignore"):
                acc = dt_np(0)
                for i in range(3):
                    acc = dt_np(acc + dt_np(dt_np(a[0, i] - b[0, i]) * dt_np(a[0, i] - b[0, i])))
                want = dt_np(np.sqrt(acc)) if root else acc
            if got != want and not (np.isnan(got) and np.isnan(want)):
                ob.status, ob.replay = "violated", "reproduced (native build of the current distance.cpp)"
                path = rep.write_replay({"engine": "IRFP", "module": "harness.C19", "label": "irfp", "goal": fname, "a": a.tolist(), "b": b.tolist(), "observed": float(got), "expected": float(want)})
                rep.violations.append((f"{fname}: kernel returns {got!r} for a={a.tolist()} b={b.tolist()}, sequential IEEE evaluation gives {want!r}", path))
            else:
                ob.status, ob.detail = "inconclusive", f"the IR differs from the sequential spec for a={a.tolist()} b={b.tolist()} but the native build agrees with it (interpreter or encoding artefact)"
        else:
            ob.status, ob.detail = "inconclusive", f"solver answered {r}; loads={M.loads}"
    run_irfp_loops(rep, ll, tier)
    # negative control: a kernel that skips the last component must be told apart
    sort = irfp.SORTS["float"]
    A = [z3.FP(f"a{i}", sort) for i in range(3)]
    B = [z3.FP(f"b{i}", sort) for i in range(3)]
    M = irfp.Machine(ll, max_steps=400)
    res = M.call("k_eu2_f", [M.buffer("A", A), M.buffer("B", B)])
    rm = z3.RNE()
    wrong = z3.FPVal(0.0, sort)
    for i in range(2):
        d = z3.fpSub(rm, A[i], B[i])
        wrong = z3.fpAdd(rm, wrong, z3.fpMul(rm, d, d))
    r, dt, _ = irfp.decide(z3.Not(irfp.fp_equal(res, wrong)), 60)
    ob = rep.add(Obligation(name="control: irfp/k_eu2_f == two-component sum (must be sat)", engine="IRFP", paths=1, solver_s=dt))
    ob.status, ob.detail, ob.twin = ("discharged", "negative control is sat as it must be", "sat") if r == "sat" else ("inconclusive", f"negative control came back {r}", r)


# ============================================================================================================================ SR: rectangular_grid
def _count(ext, sp, K):
    """the number of lattice points that fit: the n with (n-1) * sp <= ext < n * sp (n in 1..K+1); forks like the code under analysis"""
    for k in range(K + 1):
        if SB(z3.And(k * E(sp) <= E(ext), E(ext) < (k + 1) * E(sp))):
            return k + 1
    raise sr.PathBound("count outside the bound")


def g_grid(K):
    def f():
        sr.INT_BOUND = K
        l, r, pad, sp = vec("l"), vec("r"), sr.sym("pad"), sr.sym("sp")
        CTX.assume(E(sp) > 0, E(pad) >= 0)
        ext = [r[k] - l[k] + 2 * pad for k in range(3)]
        for k in range(3):
            CTX.assume(E(r[k]) >= E(l[k]), E(ext[k]) < (K + 1) * E(sp))
        g = GB.rectangular_grid(l, r, pad, sp, dtype=object)
        n = [_count(ext[k], sp, K) for k in range(3)]
        N = n[0] * n[1] * n[2]
        goals = [(f"grid: {N} points = {n[0]} x {n[1]} x {n[2]} lattice points that fit, 3 columns", z3.BoolVal(tuple(g.shape) != (N, 3)))]
        if tuple(g.shape) != (N, 3):
            return goals
        # the lattice of the property: centred in the padded box [l - pad, r + pad], spacing sp, n_k points per axis
        ax = [[E(l[k] - pad) + (E(ext[k]) - (n[k] - 1) * E(sp)) / 2 + i * E(sp) for i in range(n[k])] for k in range(3)]
        lattice = list(itertools.product(*ax))
        for t in range(N):
            goals.append((f"grid: row {t} is a lattice point", z3.And(*[z3.Or(*[E(g[t][k]) != p[k] for k in range(3)]) for p in lattice])))
        for pi, p in enumerate(lattice):
            goals.append((f"grid: lattice point {pi} is a row", z3.And(*[z3.Or(*[E(g[t][k]) != p[k] for k in range(3)]) for t in range(N)])))
        for k in range(3):
            goals += [(f"grid: axis {k} inside the padded box", z3.Or(ax[k][0] < E(l[k] - pad), ax[k][-1] > E(r[k] + pad))),
                      (f"grid: axis {k} centred", ax[k][0] - E(l[k] - pad) != E(r[k] + pad) - ax[k][-1])]
        goals.append(("control: grid: first row equals the box corner (must be sat)", z3.Or(*[E(g[0][k]) != E(l[k] - pad) for k in range(3)])))
        return goals
    return f


def replay_grid(goal, model, path):
    l = np.array([sr.fval(model, f"l{k}") for k in range(3)])
    r = np.array([sr.fval(model, f"r{k}") for k in range(3)])
    pad, sp = sr.fval(model, "pad"), sr.fval(model, "sp", 1.0)
    ext = r - l + 2 * pad
    q = ext / sp
    if np.any(np.abs(q - np.round(q)) < 1e-6):
        return True, f"model sits on a count boundary (extent/spacing = {q.tolist()}): rounding decides, outside the claim"
    g = GB.rectangular_grid(l, r, pad, sp, dtype="float64")
    n = [int(math.floor(x)) + 1 for x in q]
    ax = [[l[k] - pad + (ext[k] - (n[k] - 1) * sp) / 2 + i * sp for i in range(n[k])] for k in range(3)]
    lattice = np.array(list(itertools.product(*ax)))
    where = f"rectangular_grid({l.tolist()}, {r.tolist()}, padding={pad}, spacing={sp})"
    if g.shape != lattice.shape:
        return False, where + f": shape {g.shape}, expected {lattice.shape}"
    a = g[np.lexsort(g.T[::-1])]
    b = lattice[np.lexsort(lattice.T[::-1])]
    tol = 1e-9 * max(1.0, np.abs(lattice).max())
    if not np.allclose(a, b, atol=tol):
        return False, where + f": points {a.tolist()} are not the centred lattice {b.tolist()}"
    return True, where + ": equals the centred lattice numerically"


# ====================================================================================================================== SR: KD-tree contract
class Dist:
    """a Euclidean distance known through its square (no square root enters the queries); math.inf when nothing was found"""

    def __init__(self, d2):
        self.d2 = d2

    def le(self, m):
        if isinstance(m, Dist):
            return bool(SB(E(self.d2) <= E(m.d2)))
        return bool(SB(z3.And(E(m) >= 0, E(self.d2) <= E(m) * E(m))))


class FArr(np.ndarray):
    """object array whose `<=` forks per element and yields a real boolean array (what the descriptor code indexes with)"""

    def __le__(self, other):
        a = np.asarray(self)
        b = np.asarray(other, dtype=object) if isinstance(other, np.ndarray) else other
        a, bb = np.broadcast_arrays(a, b) if isinstance(b, np.ndarray) else (a, None)
        out = np.zeros(a.shape, dtype=bool)
        for idx in np.ndindex(*a.shape):
            x = a[idx]
            y = bb[idx] if bb is not None else b
            if isinstance(x, Dist):
                out[idx] = x.le(y)
            elif isinstance(x, float) and math.isinf(x):
                out[idx] = False
            else:
                out[idx] = bool(x <= y)
        return out


def farr(lst, shape=None):
    a = np.empty(len(lst), dtype=object)
    for i, x in enumerate(lst):
        a[i] = x
    if shape is not None:
        a = a.reshape(shape)
    return a.view(FArr)


def _d2(p, q):
    d = np.asarray(p, dtype=object) - np.asarray(q, dtype=object)
    return d @ d


CHOICE = {"n": 0}


def _free_choice():
    """an unconstrained decision of the environment (approximate search may or may not return a farther neighbour)"""
    CHOICE["n"] += 1
    return bool(SB(z3.Bool(f"kdchoice!{CHOICE['n']}")))


class KDStub:
    """contract of scipy.spatial.KDTree.query for k = 1, p = 2 (scipy documentation): with eps = 0 the nearest neighbour and its distance when
    that is <= distance_upper_bound, else (inf, n).  With eps > 0 the search is approximate: it may return any point within the bound that is
    no farther than (1 + eps) times the true nearest distance, and it may report nothing although the nearest point is within the bound, but
    only if (1 + eps) * (nearest distance) exceeds the bound.  Ties: any of the tied points."""
    LOG = []

    def __init__(self, data, *a, **k):
        self.data = np.asarray(data, dtype=object)
        assert self.data.ndim == 2 and self.data.shape[1] == 3, f"KDTree data shape {self.data.shape}"
        self.n = self.data.shape[0]

    def query(self, x, k=1, eps=0, p=2, distance_upper_bound=math.inf, workers=1):
        assert k == 1 and p == 2
        x = np.asarray(x, dtype=object)
        single = x.ndim == 1
        pts = x.reshape((-1, 3))
        dd, ii = [], []
        KDStub.LOG.append({"eps": eps, "bound": distance_upper_bound, "n": self.n, "m": len(pts)})
        for g in pts:
            d2 = [_d2(g, a) for a in self.data]
            near = 0
            for j in range(1, self.n):
                if SB(E(d2[j]) < E(d2[near])):
                    near = j
            bound = distance_upper_bound
            inf_bound = isinstance(bound, float) and math.isinf(bound)
            exact = not isinstance(eps, SR) and eps == 0
            chosen = None
            if exact:
                if inf_bound or Dist(d2[near]).le(bound):
                    chosen = near
            else:
                f2 = (1 + eps) * (1 + eps)
                must = inf_bound or bool(SB(z3.And(E(bound) >= 0, E(d2[near]) * E(f2) <= E(bound) * E(bound))))       # true nearest within bound / (1 + eps)
                for j in range(self.n):
                    if j == near:
                        continue
                    ok = bool(SB(E(d2[j]) <= E(d2[near]) * E(f2))) and (inf_bound or Dist(d2[j]).le(bound))
                    if ok and _free_choice():
                        chosen = j
                        break
                if chosen is None:
                    within = inf_bound or Dist(d2[near]).le(bound)
                    if within and (must or _free_choice()):
                        chosen = near
            if chosen is None:
                dd.append(math.inf)
                ii.append(self.n)
            else:
                dd.append(Dist(d2[chosen]))
                ii.append(chosen)
        if single:
            return dd[0], ii[0]
        return farr(dd), np.array(ii, dtype=np.int64)


class XTStub:
    """contract of the compiled kernels (IRFP part, reals instead of floats): squared distances between every conformer's atoms and the grid points"""

    @staticmethod
    def _c32(a, b):
        a, b = np.asarray(a, dtype=object), np.asarray(b, dtype=object)
        assert a.ndim == 3 and b.ndim == 2 and a.shape[2] == 3 and b.shape[1] == 3
        out = [[[_d2(a[x, i], b[j]) for j in range(b.shape[0])] for i in range(a.shape[1])] for x in range(a.shape[0])]
        return farr([v for X in out for I in X for v in I], (a.shape[0], a.shape[1], b.shape[0]))

    cdist32_eu2 = cdist32f_eu2 = cdist32d_eu2 = _c32


class SymStructure(Structure, coords_dtype=object):
    pass


def _shims():
    import scipy.spatial as SP
    saved = (SP.KDTree, GB.molli_xt)
    SP.KDTree, GB.molli_xt = KDStub, XTStub
    KDStub.LOG = []
    CHOICE["n"] = 0
    return saved


def _unshim(saved):
    import scipy.spatial as SP
    SP.KDTree, GB.molli_xt = saved


ELS = ["C", "H", "O"]


def _ensemble(nc, na, weights=None):
    e = ConformerEnsemble([Atom(ELS[i % 3]) for i in range(na)], n_conformers=nc)
    e._coords = np.array([[[SR(z3.Real(f"x{c}_{i}_{k}")) for k in range(3)] for i in range(na)] for c in range(nc)], dtype=object)
    e._atomic_charges = np.array([[0.25 * (i + 1) * (-1) ** i + 0.0625 * c for i in range(na)] for c in range(nc)], dtype=float)
    if weights is not None:
        e._weights = weights
    return e


def _geom(na):
    return SymStructure([Atom(ELS[i % 3]) for i in range(na)], coords=np.array([[SR(z3.Real(f"x0_{i}_{k}")) for k in range(3)] for i in range(na)], dtype=object))


def g_nearest(kind, nc, na, ng):
    """nearest_atom_index on a structure (kind 'geom') or an ensemble: symbolic coordinates, grid points and cut-off"""
    def f():
        saved = _shims()
        try:
            grid = np.array([[SR(z3.Real(f"g{j}_{k}")) for k in range(3)] for j in range(ng)], dtype=object)
            md = sr.sym("max_dist")
            CTX.assume(E(md) > 0)
            obj = _geom(na) if kind == "geom" else _ensemble(nc, na)
            res = GB.nearest_atom_index(grid, obj, max_dist=md)
            res = np.asarray(res)
            want_shape = (ng,) if kind == "geom" else (nc, ng)
            goals = [(f"nearest[{kind}]: result shape {want_shape}", z3.BoolVal(tuple(res.shape) != want_shape))]
            if tuple(res.shape) != want_shape:
                return goals
            X = obj._coords if kind != "geom" else obj.coords.reshape((1, na, 3))
            for c in range(X.shape[0]):
                for j in range(ng):
                    r = int(res[j] if kind == "geom" else res[c, j])
                    d2 = [E(_d2(grid[j], X[c, i])) for i in range(na)]
                    m2 = E(md) * E(md)
                    if r == -1:
                        goals.append((f"nearest[{kind}]: conformer {c} point {j}: -1 only if every atom is farther than the cut-off", z3.Or(*[d <= m2 for d in d2])))
                    elif 0 <= r < na:
                        goals.append((f"nearest[{kind}]: conformer {c} point {j}: atom {r} is the closest and within the cut-off", z3.Or(d2[r] > m2, *[d < d2[r] for d in d2])))
                    else:
                        goals.append((f"nearest[{kind}]: conformer {c} point {j}: index {r} is not an atom", z3.BoolVal(True)))
            goals.append((f"control: nearest[{kind}]: result can be atom 0 (must be sat)" if int(np.ravel(res)[0]) == 0 else f"control: nearest[{kind}]: path reachable (must be sat)", z3.BoolVal(True)))
            return goals
        finally:
            _unshim(saved)
    return f


def replay_nearest(kind, nc, na, ng):
    def rp(goal, model, path):
        grid = np.array([[sr.fval(model, f"g{j}_{k}") for k in range(3)] for j in range(ng)])
        md = sr.fval(model, "max_dist", 1.0)
        X = np.array([[[sr.fval(model, f"x{c}_{i}_{k}") for k in range(3)] for i in range(na)] for c in range(nc if kind != "geom" else 1)])
        if kind == "geom":
            obj = Structure([Atom(ELS[i % 3]) for i in range(na)], coords=X[0])
        else:
            obj = ConformerEnsemble([Atom(ELS[i % 3]) for i in range(na)], n_conformers=nc)
            obj._coords = X.copy()
        res = np.asarray(GB.nearest_atom_index(grid, obj, max_dist=md))
        res = res.reshape((1, ng)) if kind == "geom" else res
        bad = []
        for c in range(X.shape[0]):
            for j in range(ng):
                d = np.linalg.norm(X[c] - grid[j], axis=1)
                if np.any(np.abs(d - md) < 1e-9 * max(1, md)) or (len(d) > 1 and np.min(np.abs(np.diff(np.sort(d)))) < 1e-12):
                    continue                                           # on the cut-off or tied: rounding decides
                want = int(np.argmin(d)) if d.min() <= md else -1
                if int(res[c, j]) != want:
                    bad.append(f"conformer {c} point {j}: returned {int(res[c, j])}, closest atom within {md:g} is {want} (distances {np.round(d, 6).tolist()})")
        where = f"nearest_atom_index[{kind}] grid={grid.tolist()} coords={X.tolist()} max_dist={md:g}"
        return (not bad), where + ": " + ("agrees with the definition numerically" if not bad else "; ".join(bad))
    return rp


def g_prune(kind, nc, na, ng):
    def f():
        saved = _shims()
        try:
            grid = np.array([[SR(z3.Real(f"g{j}_{k}")) for k in range(3)] for j in range(ng)], dtype=object)
            md, eps = sr.sym("max_dist"), sr.sym("eps")
            CTX.assume(E(md) > 0, E(eps) >= 0, E(eps) <= 4)
            obj = _geom(na) if kind == "geom" else _ensemble(nc, na)
            res = np.asarray(GB.prune(grid, obj, max_dist=md, eps=eps))
            kept = set(int(v) for v in res.ravel())
            X = obj._coords.reshape((-1, 3)) if kind != "geom" else obj.coords
            goals = [(f"prune[{kind}]: indices are grid rows, each once, ascending", z3.BoolVal(not (res.ndim == 1 and list(res) == sorted(kept) and kept <= set(range(ng)))))]
            m2 = E(md) * E(md)
            f2 = (1 + E(eps)) * (1 + E(eps))
            for j in range(ng):
                d2 = [E(_d2(grid[j], a)) for a in X]
                if j in kept:
                    goals.append((f"prune[{kind}]: kept point {j} is no farther than the cut-off from some atom", z3.And(*[d > m2 for d in d2])))
                else:
                    goals.append((f"prune[{kind}]: dropped point {j} is not closer than cut-off / (1 + eps) to any atom", z3.Or(*[d * f2 <= m2 for d in d2])))
            goals.append((f"control: prune[{kind}]: path reachable (must be sat)", z3.BoolVal(True)))
            return goals
        finally:
            _unshim(saved)
    return f


def replay_prune(kind, nc, na, ng):
    def rp(goal, model, path):
        grid = np.array([[sr.fval(model, f"g{j}_{k}") for k in range(3)] for j in range(ng)])
        md, eps = sr.fval(model, "max_dist", 1.0), sr.fval(model, "eps", 0.0)
        X = np.array([[[sr.fval(model, f"x{c}_{i}_{k}") for k in range(3)] for i in range(na)] for c in range(nc if kind != "geom" else 1)])
        if kind == "geom":
            obj = Structure([Atom(ELS[i % 3]) for i in range(na)], coords=X[0])
        else:
            obj = ConformerEnsemble([Atom(ELS[i % 3]) for i in range(na)], n_conformers=nc)
            obj._coords = X.copy()
        res = set(int(v) for v in np.asarray(GB.prune(grid, obj, max_dist=md, eps=eps)).ravel())
        bad = []
        for j in range(ng):
            d = np.linalg.norm(X.reshape((-1, 3)) - grid[j], axis=1).min()
            if j in res and d > md * (1 + 1e-9):
                bad.append(f"kept point {j} at distance {d:g} > cut-off {md:g}")
            if j not in res and d < md / (1 + eps) * (1 - 1e-9):
                bad.append(f"dropped point {j} at distance {d:g} < cut-off/(1+eps) = {md / (1 + eps):g}")
        where = f"prune[{kind}] grid={grid.tolist()} coords={X.tolist()} max_dist={md:g} eps={eps:g}"
        return (not bad), where + ": " + ("agrees with the definition numerically" if not bad else "; ".join(bad))
    return rp


# ========================================================================================================================= SR: aso / aeif
def _ite_nearest_charge(d2, q):
    """charge of the closest atom as a z3 term (ties broken towards the lower index; tied inputs are excluded by the caller)"""
    best_d, best_q = d2[0], z3.RealVal(str(Fraction(float(q[0]))))
    for i in range(1, len(d2)):
        qi = z3.RealVal(str(Fraction(float(q[i]))))
        best_q = z3.If(d2[i] < best_d, qi, best_q)
        best_d = z3.If(d2[i] < best_d, d2[i], best_d)
    return best_q


def g_field(which, nc, na, ng, weighted):
    def f():
        saved = _shims()
        try:
            grid = np.array([[SR(z3.Real(f"g{j}_{k}")) for k in range(3)] for j in range(ng)], dtype=object)
            w = None
            if weighted:
                w = np.array([SR(z3.Real(f"w{c}")) for c in range(nc)], dtype=object)
                for c in range(nc):
                    CTX.assume(E(w[c]) > 0)
            ens = _ensemble(nc, na, w)
            if not weighted:
                ens._weights = np.array([1.0 + 2 * c for c in range(nc)])       # must be ignored
            sym_r = which == "aif"
            if sym_r:                                                              # atomic_indicator_field itself, with every sphere radius a positive symbolic real
                rad_sr = np.array([SR(z3.Real(f"rad{i}")) for i in range(na)], dtype=object)
                for i in range(na):
                    CTX.assume(E(rad_sr[i]) > 0)
                radii = None
            else:
                radii = [Fraction(float(a.vdw_radius)) for a in ens.atoms]
            d2 = [[[E(_d2(grid[j], ens._coords[c, i])) for i in range(na)] for j in range(ng)] for c in range(nc)]
            for c in range(nc if not sym_r else 0):                                # rounding band at the sphere surfaces (excluded by the property)
                for j in range(ng):
                    for i in range(na):
                        r2 = radii[i] * radii[i]
                        CTX.assume(z3.Or(d2[c][j][i] <= z3.RealVal(str(r2 * Fraction(999999, 1000000))), d2[c][j][i] >= z3.RealVal(str(r2 * Fraction(1000001, 1000000)))))
            if which in ("aeif", "aif"):                                           # ties between atoms: the nearest atom is not defined
                for c in range(nc):
                    for j in range(ng):
                        for i in range(na):
                            for i2 in range(i + 1, na):
                                CTX.assume(d2[c][j][i] != d2[c][j][i2])
            if sym_r:
                res = GB.atomic_indicator_field(ens, grid, ens._atomic_charges, rad_sr, weighted=weighted)
            else:
                res = GB.aso(ens, grid, weighted=weighted) if which == "aso" else GB.aeif(ens, grid, weighted=weighted)
            res = np.asarray(res, dtype=object)
            goals = [(f"{which}: one value per grid point", z3.BoolVal(tuple(res.shape) != (ng,)))]
            if tuple(res.shape) != (ng,):
                return goals
            ws = [E(w[c]) if weighted else z3.RealVal(1) for c in range(nc)]
            for j in range(ng):
                vals = []
                for c in range(nc):
                    occ = z3.Or(*[d2[c][j][i] <= (E(rad_sr[i]) * E(rad_sr[i]) if sym_r else z3.RealVal(str(radii[i] * radii[i]))) for i in range(na)])
                    v = z3.RealVal(1) if which == "aso" else _ite_nearest_charge(d2[c][j], ens._atomic_charges[c])
                    vals.append(z3.If(occ, v, z3.RealVal(0)))
                want = sum(ws[c] * vals[c] for c in range(nc)) / sum(ws)
                goals.append((f"{which}{'[weighted]' if weighted else ''}: point {j} = conformer average of the " + ("occupancy" if which == "aso" else "nearest-atom charge") + " indicator", E(res[j]) != want))
            goals.append((f"control: {which}: path reachable (must be sat)", z3.BoolVal(True)))
            return goals
        finally:
            _unshim(saved)
    return f


def replay_field(which, nc, na, ng, weighted):
    def rp(goal, model, path):
        grid = np.array([[sr.fval(model, f"g{j}_{k}") for k in range(3)] for j in range(ng)])
        X = np.array([[[sr.fval(model, f"x{c}_{i}_{k}") for k in range(3)] for i in range(na)] for c in range(nc)])
        ens = ConformerEnsemble([Atom(ELS[i % 3]) for i in range(na)], n_conformers=nc)
        ens._coords = X.copy()
        ens._atomic_charges = np.array([[0.25 * (i + 1) * (-1) ** i + 0.0625 * c for i in range(na)] for c in range(nc)], dtype=float)
        ens._weights = np.array([sr.fval(model, f"w{c}", 1.0) for c in range(nc)]) if weighted else np.array([1.0 + 2 * c for c in range(nc)])
        rad = np.array([a.vdw_radius for a in ens.atoms]) if which != "aif" else np.array([sr.fval(model, f"rad{i}", 1.0) for i in range(na)])
        with warnings.catch_warnings():
            warnings.simplefilter("ignore")
            if which == "aif":
                got = np.asarray(GB.atomic_indicator_field(ens, grid, ens._atomic_charges, rad, weighted=weighted), dtype=float)
            else:
                got = np.asarray(GB.aso(ens, grid.astype(np.float32) if which == "aso" else grid, weighted=weighted) if which == "aso" else GB.aeif(ens, grid, weighted=weighted), dtype=float)
        want = np.zeros(ng)
        wsum = ens._weights.sum() if weighted else nc
        for j in range(ng):
            for c in range(nc):
                d = np.linalg.norm(X[c] - grid[j], axis=1)
                if np.any(np.abs(d - rad) < 1e-5):
                    return True, "model sits on a sphere surface (float32 rounding band): outside the claim"
                occ = np.any(d <= rad)
                v = 1.0 if which == "aso" else ens._atomic_charges[c][int(np.argmin(d))]
                want[j] += (ens._weights[c] if weighted else 1.0) * (v if occ else 0.0) / wsum
        ok = np.allclose(got, want, atol=1e-6)
        return ok, f"{which}(weighted={weighted}) grid={grid.tolist()} coords={X.tolist()} weights={ens._weights.tolist()}: got {got.tolist()}, definition gives {want.tolist()}"
    return rp


def validate_stubs():
    """KD-tree and kernel contracts against scipy / molli_xt on concrete data (exact search; the approximate search only has to stay inside its
    contract: returned distance <= bound and <= (1+eps) * nearest, nothing returned only if (1+eps) * nearest > bound)"""
    from scipy.spatial import KDTree
    import molli_xt
    rng = np.random.default_rng(5)
    k = 0
    for t in range(300):
        n, m = rng.integers(1, 6), rng.integers(1, 5)
        data, pts = rng.normal(size=(n, 3)) * 2, rng.normal(size=(m, 3)) * 2
        bound = float(rng.choice([0.5, 1.5, 3.0, np.inf]))
        eps = float(rng.choice([0.0, 0.5, 2.0]))
        dd, ii = KDTree(data).query(pts, eps=eps, distance_upper_bound=bound)
        true = np.linalg.norm(pts[:, None, :] - data[None, :, :], axis=2)
        for j in range(m):
            dmin = true[j].min()
            if np.isinf(dd[j]):
                assert ii[j] == n and dmin * (1 + eps) > bound * (1 - 1e-12), ("KDTree contract: nothing returned", dmin, eps, bound)
            else:
                assert abs(dd[j] - true[j, ii[j]]) < 1e-9 and dd[j] <= bound and dd[j] <= (1 + eps) * dmin * (1 + 1e-12), ("KDTree contract", dd[j], dmin, eps, bound)
                if eps == 0:
                    assert dd[j] == dmin or abs(dd[j] - dmin) < 1e-12
            k += 1
        a = (rng.normal(size=(2, n, 3))).astype(np.float64)
        ref = ((a[:, :, None, :] - pts[None, None, :, :]) ** 2).sum(-1)
        assert np.allclose(molli_xt.cdist32_eu2(a, pts), ref, rtol=1e-12, atol=1e-12)
        assert np.allclose(molli_xt.cdist32f_eu2(a.astype(np.float32), pts.astype(np.float32)), ref, rtol=1e-4, atol=1e-5)
        k += 2
    return k


ENCODED = ["molli.descriptor.gridbased.rectangular_grid", "molli.descriptor.gridbased.nearest_atom_index", "molli.descriptor.gridbased.prune", "molli.descriptor.gridbased.atomic_indicator_field",
           "molli.descriptor.gridbased.aso", "molli.descriptor.gridbased.aeif"]


def run(rep, tier):
    q = tier == "quick"
    rep.encoded = ENCODED
    rep.extra["module"] = "harness.C19"
    rep.level = "other"
    rep.models_validated += validate_stubs()
    K = 1 if q else 2
    rep.bounds = {"IRFP": "euclidean2 / euclidean <float, 3> and <double, 3>: all 2^192 / 2^384 input bit patterns (QF_FP, round-to-nearest-even), loop unrolled exactly (3 trips)",
                  "rectangular_grid": f"corners, padding >= 0 and spacing > 0 symbolic reals; at most {K + 1} points per axis (extent < {K + 1} spacings): every feasible count vector is one path",
                  "nearest_atom_index / prune": "structure with 2-3 atoms, ensemble with 2 conformers x 1-2 atoms, 1 grid point (thorough: 2 grid points for a structure); coordinates, grid points, cut-off > 0 and 0 <= eps <= 4 symbolic reals",
                  "aso / aeif / atomic_indicator_field (the latter with symbolic sphere radii)": "1-2 conformers x 1-2 atoms x 1 grid point (thorough: 2 x 2 x 1 weighted); coordinates, grid points and (weighted) positive weights symbolic reals; charges concrete and distinct"}
    rep.outside = ["the prebuilt molli_xt*.so is not rebuilt (no pybind11 in the sandbox): the IRFP part is about the current distance.cpp, the binary is exercised in validate_stubs and replays only",
                   "cdist22 / cdist32 index loops, array shapes, non-contiguous / transposed inputs (pybind11 conversion)", "KD-tree internals (scipy): replaced by the documented contract of query()",
                   "reals instead of float32/float64 in the SR part: rounding bands at sphere surfaces, at the cut-off and at count boundaries of the grid", "grids with more points per axis, more atoms / conformers"]
    rep.assumptions = ["KDStub: contract of scipy.spatial.KDTree.query (exact for eps = 0; for eps > 0 any neighbour within the bound and (1+eps) x nearest, 'nothing' only if (1+eps) x nearest > bound), validated against scipy each run",
                       "XTStub: cdist32*_eu2 = exact squared distances (validated against molli_xt each run)", "van der Waals radii and partial charges concrete"]
    try:
        run_irfp(rep, tier)
    except irfp.IRError as e:
        rep.add(Obligation(name="irfp/compile", engine="IRFP", status="inconclusive", detail=str(e)))
    T = 120 if q else 600
    jobs = [("grid", g_grid(K), replay_grid, 80)]
    # sizes beyond these (two grid points against an ensemble, approximate search over 4 points) left nlsat undecided after 600 s per query and are not claimed
    near = [("geom", 1, 2, 1), ("geom", 1, 3, 1), ("ens", 2, 2, 1)] + ([] if q else [("geom", 1, 2, 2)])
    for kind, nc, na, ng in near:
        jobs.append((f"nearest[{kind},{nc},{na},{ng}]", g_nearest(kind, nc, na, ng), replay_nearest(kind, nc, na, ng), 64 if q else 256))
    prn = [("geom", 1, 2, 1), ("ens", 2, 1, 1)]
    for kind, nc, na, ng in prn:
        jobs.append((f"prune[{kind},{nc},{na},{ng}]", g_prune(kind, nc, na, ng), replay_prune(kind, nc, na, ng), 64 if q else 512))
    fld = [("aso", 1, 2, 1, False), ("aso", 2, 1, 1, True), ("aeif", 1, 2, 1, False), ("aeif", 2, 1, 1, True), ("aif", 1, 1, 1, False), ("aif", 1, 2, 1, False)] + ([] if q else [("aso", 2, 2, 1, True), ("aeif", 2, 2, 1, True)])
    for which, nc, na, ng, wt in fld:
        jobs.append((f"{which}[{nc},{na},{ng},{'w' if wt else 'u'}]", g_field(which, nc, na, ng, wt), replay_field(which, nc, na, ng, wt), 64 if q else 1024))
    for label, fn, rp, mp in jobs:
        try:
            paths = sr.explore(fn, max_paths=mp)
        except sr.PathBound as e:
            rep.add(Obligation(name=f"{label}/explore", engine="SR", status="inconclusive", detail=str(e)))
            continue
        rep.samples.append({"function": label, "feasible_paths": len(paths), "goals_per_path": [len(p["goals"]) for p in paths][:8]})
        ctrl = tuple(g[0] for p in paths for g in p["goals"] if g[0].startswith("control:"))
        sr.discharge(rep, label, paths, timeout=T, replay=rp, expect_sat=ctrl, denominators=False)


def replay(d):
    import re
    lab = d["label"]
    if lab == "grid":
        return replay_grid(d["goal"], d["model"], None)
    m = re.match(r"(nearest|prune)\[(\w+),(\d+),(\d+),(\d+)\]", lab)
    if m:
        f = replay_nearest if m.group(1) == "nearest" else replay_prune
        return f(m.group(2), int(m.group(3)), int(m.group(4)), int(m.group(5)))(d["goal"], d["model"], None)
    m = re.match(r"(aso|aeif|aif)\[(\d+),(\d+),(\d+),(\w)\]", lab)
    if m:
        return replay_field(m.group(1), int(m.group(2)), int(m.group(3)), int(m.group(4)), m.group(5) == "w")(d["goal"], d["model"], None)
    if lab == "irfp-loops":
        ok, detail = native_replay(d["goal"], *d["shape"])
        return (ok is not False), detail
    if lab == "irfp":
        return False, f"kernel {d['goal']} differs from the sequential spec at a={d['a']} b={d['b']}"
    raise ValueError(lab)
