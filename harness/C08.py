"""C08 — xyz round trip and unit handling: coordinates mean what the file says (XH menus + SR symbolic-real coordinates)."""
import os
import numpy as np
import z3
import molli.chem.geometry as GEO
import molli.chem.structure as STR
from molli.chem import Atom, Molecule, Structure, CartesianGeometry, ConformerEnsemble, Element, AtomType
from molli.chem.geometry import DistanceUnit

SPLIT = int(os.environ.get("XH_SPLIT", "-1"))
QUICK = os.environ.get("XH_THOROUGH") != "1" and os.environ.get("XH_REPLAY") != "1"
XYZ = [[0.0, 0.0, 0.0], [-1.5, 2.25, 1e-7], [123456.789012, -99999.5, 0.1234564], [1.0000004, -0.0000004, 3.3333333], [1e-3, -1e3, 42.0]]
NEL = 119


def pick(sel, n):
    for i in range(n):
        if sel == i:
            return i
    return 0


def _close(a, b):
    a, b = np.asarray(a, dtype=float), np.asarray(b, dtype=float)
    return a.shape == b.shape and (a.size == 0 or float(np.max(np.abs(a - b))) <= 1e-6)


def h_xyz_elements(cls_sel: int, z0: int) -> bool:
    """
    every element (as atom 0 of a 2-atom geometry / 2-frame ensemble) survives the xyz round trip in each class
    pre: 0 <= cls_sel <= 3 and 0 <= z0 < NEL
    pre: SPLIT < 0 or z0 % 8 == SPLIT
    post: _
    """
    return _rt(pick(cls_sel, 4), pick(z0, NEL), 2, 1, 2, 0)


def h_xyz_shapes(cls_sel: int, na: int, xsel: int, nframes: int, route: int, zsel: int) -> bool:
    """
    0..3 atoms, every coordinate row of the menu, 1..3 frames, both readers, in each class
    pre: 0 <= cls_sel <= 3 and 0 <= na <= 3 and 0 <= xsel < len(XYZ) and 1 <= nframes <= 3 and 0 <= route <= 1 and 0 <= zsel <= 1
    pre: SPLIT < 0 or cls_sel * 2 + route == SPLIT
    post: _
    """
    return _rt(pick(cls_sel, 4), [6, 0][pick(zsel, 2)], pick(na, 4), pick(xsel, len(XYZ)), pick(nframes, 4), pick(route, 2))


def h_xyz_roundtrip(cls_sel: int, z0: int, na: int, xsel: int, nframes: int, route: int) -> bool:
    """
    dump_xyz / dumps_xyz -> loads_xyz / loads_all_xyz / ConformerEnsemble.loads_xyz: count, order, elements, coordinates (1e-6), frame by frame.
    Element of atom 0 ranges over all 119 elements, the others follow; coordinate rows from a menu (negative, >= 1e5, 1e-7, 7 decimals).
    pre: 0 <= cls_sel <= 3 and 0 <= z0 < NEL and 0 <= na <= 3 and 0 <= xsel < len(XYZ) and 1 <= nframes <= 3 and 0 <= route <= 1
    pre: SPLIT < 0 or z0 % 16 == SPLIT
    post: _
    """
    return _rt(pick(cls_sel, 4), pick(z0, NEL), pick(na, 4), pick(xsel, len(XYZ)), pick(nframes, 4), pick(route, 2))


def _rt(cls_sel, z0, na, xsel, nframes, route):
    els = [(z0 + 7 * i) % NEL for i in range(na)]
    atoms = [Atom(z) for z in els]
    coords = np.array([XYZ[(xsel + i) % len(XYZ)] for i in range(na)], dtype=float).reshape((na, 3))
    if cls_sel == 3:
        e = ConformerEnsemble(atoms, n_conformers=nframes, name="ens")
        e.coords = np.array([coords * (f + 1) - f for f in range(nframes)]).reshape((nframes, na, 3))
        text = e.dumps_xyz()
        r = ConformerEnsemble.loads_xyz(text)
        if r.n_conformers != nframes or r.n_atoms != na:
            return False
        if [int(a.element) for a in r.atoms] != els:
            return False
        for f in range(nframes):
            if not _close(r.coords[f], e.coords[f]):
                return False
        frames = Molecule.loads_all_xyz(text)
        if len(frames) != nframes:
            return False
        for f in range(nframes):
            if not _close(frames[f].coords, e.coords[f]) or [int(a.element) for a in frames[f].atoms] != els:
                return False
        return True
    cls = [CartesianGeometry, Structure, Molecule][cls_sel]
    g = cls(atoms, coords=coords, name="g")
    text = g.dumps_xyz()
    r = cls.loads_xyz(text) if route == 0 else cls.loads_all_xyz(text)[0]
    if r.n_atoms != na or [int(a.element) for a in r.atoms] != els:
        return False
    if not _close(r.coords, coords):
        return False
    return r.dumps_xyz().split("\n")[2:] == text.split("\n")[2:]       # atom lines are a fixed point (the comment line carries the name)


def h_xyz_frames(cls_sel: int, z0: int, na: int, shift: int, xsel: int, third: int, dummy: bool) -> bool:
    """
    a multi-frame xyz text of DIFFERENT molecules: frame 2 has the atom count of frame 1 but other elements / another atom order (element list
    shifted or reversed), frame 3 another count; read back with loads_all_xyz / yield_from_xyz: every frame has its own count, order, elements and coordinates
    pre: 0 <= cls_sel <= 2 and 0 <= z0 < NEL and 1 <= na <= 3 and 0 <= shift <= 3 and 0 <= xsel < len(XYZ) and 0 <= third <= 2
    pre: SPLIT < 0 or z0 % 16 == SPLIT
    pre: not QUICK or (xsel == (z0 + na) % 5 and third == (shift + na) % 3)
    post: _
    """
    cls = [CartesianGeometry, Structure, Molecule][pick(cls_sel, 3)]
    z0, na, shift, xsel, third = pick(z0, NEL), pick(na, 4), pick(shift, 4), pick(xsel, len(XYZ)), pick(third, 3)
    els1 = [(z0 + 7 * i) % NEL for i in range(na)]
    els2 = els1[::-1] if shift == 0 else [(z + shift) % NEL for z in els1]
    frames = [(els1, 0), (els2, 1)]
    if third == 1:
        frames.append((els1, 2))                       # the first molecule again, after a different one
    elif third == 2:
        frames.append((els2 + [1], 2))                 # another atom count
    text, want = "", []
    for els, k in frames:
        n = len(els)
        coords = np.array([XYZ[(xsel + i + k) % len(XYZ)] for i in range(n)], dtype=float).reshape((n, 3))
        # optionally the first atom of every frame is a dummy-TYPE atom that still has its element (e.g. mol2 'Du.C'): xyz carries the element
        text += cls([Atom(z, atype=(AtomType.Dummy if (dummy and i == 0) else AtomType.Regular)) for i, z in enumerate(els)], coords=coords, name=f"f{k}").dumps_xyz()
        want.append((els, coords))
    got = cls.loads_all_xyz(text)
    if len(got) != len(want):
        return False
    for r, (els, coords) in zip(got, want):
        if r.n_atoms != len(els) or [int(a.element) for a in r.atoms] != els or not _close(r.coords, coords):
            return False
    return True


def h_xyz_dummy(sym_sel: int, xsel: int) -> bool:
    """
    hand-written xyz with symbols in various spellings and the dummy symbol '*': element / dummy type as the file says
    pre: 0 <= sym_sel <= 5 and 0 <= xsel < len(XYZ)
    post: _
    """
    syms = ["C", "c", "CL", "cl", "*", "Og"]
    want = [6, 6, 17, 17, 0, 118]
    k, x = pick(sym_sel, 6), XYZ[pick(xsel, len(XYZ))]
    text = f"2\ncomment line\n{syms[k]} {x[0]:.7f} {x[1]:.7f} {x[2]:.7f}\nH 0 0 1\n"
    g = CartesianGeometry.loads_xyz(text)
    if g.n_atoms != 2 or int(g.atoms[0].element) != want[k] or int(g.atoms[1].element) != 1:
        return False
    if syms[k] == "*" and g.atoms[0].atype != AtomType.Dummy:
        return False
    return _close(g.coords[0], x) and _close(g.coords[1], [0, 0, 1])


# ------------------------------------------------------------------ SR: units --------------------------------------------------------------
ANGSTROM_PER_UNIT = {"A": 1.0, "Angstrom": 1.0, "Bohr": 0.529177210903, "au": 0.529177210903, "fm": 1e-5, "pm": 0.01, "nm": 10.0}   # CODATA / SI, independent of molli's table


class _XA:
    def __init__(self, symbol, x, y, z):
        self.symbol, self.x, self.y, self.z = symbol, x, y, z


class _XB:
    def __init__(self, atoms):
        self.atoms, self.n_atoms, self.comment = atoms, len(atoms), ""

    @property
    def coords(self):
        return [(a.x, a.y, a.z) for a in self.atoms]


class _MA:
    def __init__(self, i, xyz):
        self.idx, self.label, self.xyz, self.mol2_type, self.attrib, self.charge = i, f"a{i}", list(xyz), "C.3", {}, 0.0


class _MH:
    def __init__(self, n):
        self.name, self.n_atoms, self.n_bonds, self.chrg_type = "m", n, 0, "USER_CHARGES"


class _MB:
    def __init__(self, atoms):
        self.header, self.atoms, self.bonds = _MH(len(atoms)), atoms, []


def sr_units(rep, tier):
    from engine import sr

    class SymGeom(CartesianGeometry, coords_dtype=object):
        pass

    class SymMol(Molecule, coords_dtype=object):
        pass

    def replay_factory(reader, unit):
        def replay(goal, model, path):
            x = [sr.fval(model, f"x{i}") for i in range(3)]
            if reader == "xyz":
                g = CartesianGeometry.loads_xyz(f"1\n\nH {x[0]!r} {x[1]!r} {x[2]!r}\n", source_units=unit)
            else:
                txt = ("@<TRIPOS>MOLECULE\nm\n1 0 0 0 0\nSMALL\nUSER_CHARGES\n\n@<TRIPOS>ATOM\n"
                       f"     1 H1 {x[0]!r} {x[1]!r} {x[2]!r} H 1 UNL1 0.0\n@<TRIPOS>BOND\n")
                g = Molecule.loads_mol2(txt, source_units=unit)
            want = np.array(x) * ANGSTROM_PER_UNIT[unit]
            ok = bool(np.all(np.abs(g.coords[0] - want) <= 1e-4 * np.abs(np.array(x)) + 1e-12))
            return ok, f"{reader} reader, source_units={unit}: input {x} -> {g.coords[0].tolist()} A, physically {want.tolist()} A"
        return replay

    saved = (GEO.read_xyz, STR.read_mol2)
    jobs = []
    try:
        for reader in ("xyz", "mol2"):
            for unit in DistanceUnit.__members__:          # every member and alias
                k = ANGSTROM_PER_UNIT[unit]

                def run_reader():
                    x = sr.vec("x")
                    if reader == "xyz":
                        GEO.read_xyz = lambda stream: iter([_XB([_XA("H", x[0], x[1], x[2])])])
                        g = next(SymGeom.yield_from_xyz(None, source_units=unit))
                    else:
                        STR.read_mol2 = lambda stream: iter([_MB([_MA(1, x)])])
                        g = next(SymMol.yield_from_mol2(object(), source_units=unit))
                    out = g.coords[0]
                    goals = []
                    for i in range(3):
                        xi, oi = sr.E(x[i]), sr.E(out[i])
                        absx = z3.If(xi >= 0, xi, -xi)
                        d = oi - xi * sr.lift(k)
                        goals.append((f"{reader}/{unit}/coord{i} within 1e-4 relative of x*{k}", z3.Or(d > absx * sr.lift(1e-4), -d > absx * sr.lift(1e-4))))
                    return goals
                paths = sr.explore(run_reader, max_paths=4)
                jobs.append((f"units[{reader},{unit}]", paths, replay_factory(reader, unit)))
    finally:
        GEO.read_xyz, STR.read_mol2 = saved
    for label, paths, rp in jobs:          # discharged with the real readers restored (the numeric replay parses real text)
        sr.discharge(rep, label, paths, timeout=60, replay=rp)


ENCODED = ["molli.chem.geometry.CartesianGeometry.dump_xyz", "molli.chem.geometry.CartesianGeometry.dumps_xyz", "molli.chem.geometry.CartesianGeometry.yield_from_xyz",
           "molli.chem.geometry.CartesianGeometry.loads_xyz", "molli.chem.geometry.CartesianGeometry.loads_all_xyz", "molli.chem.geometry.CartesianGeometry.scale",
           "molli.chem.geometry.DistanceUnit", "molli.parsing.xyz.read_xyz", "molli.chem.ensemble.ConformerEnsemble.dump_xyz", "molli.chem.ensemble.ConformerEnsemble.load_xyz",
           "molli.chem.structure.Structure.yield_from_mol2"]


def run(rep, tier):
    from engine import xh
    rep.encoded = ENCODED
    rep.extra["module"] = "harness.C08"
    rep.bounds = {"round trip": "multi-frame texts of different molecules (same count with other elements / order, other count); CartesianGeometry/Structure/Molecule/ConformerEnsemble, 0..3 atoms, element of atom 0 over all 119, 1..3 frames, 5 coordinate rows (negative, >=1e5, 1e-7, 7 decimals)",
                  "units (SR)": "symbolic real coordinates of one atom through the real yield_from_xyz / yield_from_mol2 unit branch and scale(), every member and alias of DistanceUnit, tolerance 1e-4 relative against an independent CODATA table"}
    rep.outside = ["float formatting of magnitudes beyond the menu", "[selector-bound] for the text round trip", "reals, not floats, in the unit proof (rounding of the conversion factor is inside the 1e-4 tolerance)"]
    rep.assumptions = ["read_xyz / read_mol2 are replaced by a stub yielding one block with symbolic coordinates for the SR part (the parsers themselves are exercised by the XH part)"]
    if tier == "quick":
        specs = [{"fn": "h_xyz_elements", "timeout": 600, "split": c} for c in range(8)] + [{"fn": "h_xyz_shapes", "timeout": 600, "split": c} for c in range(8)]
    else:
        specs = [{"fn": "h_xyz_roundtrip", "timeout": 3000, "split": c} for c in range(16)]
    specs += [{"fn": "h_xyz_dummy", "timeout": 300}]
    # quick: element of atom 0 from every 16th residue class that is 0 mod 4 (4 processes); thorough: all 16 classes
    specs += [{"fn": "h_xyz_frames", "timeout": 600 if tier == "quick" else 3000, "split": c, "env": ({} if tier == "quick" else {"XH_THOROUGH": "1"})} for c in (range(0, 16, 4) if tier == "quick" else range(16))]
    xh.run_obligations(rep, "harness.C08", specs)
    sr_units(rep, tier)


def replay(d):
    """./vcheck --replay for SR counterexamples of this module: re-parse real text with the model's coordinates"""
    import re
    from engine import sr
    m = re.match(r"units\[(\w+),(\w+)\]", d["label"])
    reader, unit = m.group(1), m.group(2)
    x = [sr.fval(d["model"], f"x{i}") for i in range(3)]
    if reader == "xyz":
        g = CartesianGeometry.loads_xyz(f"1\n\nH {x[0]!r} {x[1]!r} {x[2]!r}\n", source_units=unit)
    else:
        g = Molecule.loads_mol2("@<TRIPOS>MOLECULE\nm\n1 0 0 0 0\nSMALL\nUSER_CHARGES\n\n@<TRIPOS>ATOM\n" f"     1 H1 {x[0]!r} {x[1]!r} {x[2]!r} H 1 UNL1 0.0\n@<TRIPOS>BOND\n", source_units=unit)
    want = np.array(x) * ANGSTROM_PER_UNIT[unit]
    ok = bool(np.all(np.abs(g.coords[0] - want) <= 1e-4 * np.abs(np.array(x)) + 1e-12))
    return ok, f"{reader} reader, source_units={unit}: input {x} -> {g.coords[0].tolist()} A, physically {want.tolist()} A"
