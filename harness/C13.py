"""C13 — CDXML parsing reproduces the drawing: constitution, charges, handedness.

SR: the real _cdxml_3dify_ (and through it rotate_2dvec_outa_plane / rotation_matrix_from_axis / Substructure edits) on symbolic page coordinates:
    wedge <-> hash inverts the handedness of every non-planar centre, the marked atom goes to the marked side, the constitution is unchanged.
XH: the real _parse_fragment / _parse_atom_node / _parse_bond on a pure-Python element model with symbolic charges, isotopes, hydrogen counts and
    selector-chosen elements, radicals, node types, bond orders, stereo marks, ids and page offsets."""
import os, math, warnings, itertools
from typing import Optional
from fractions import Fraction
import numpy as np
import z3
import molli.ftypes.cdxml as CX
import molli.math.rotation as ROT
from molli.chem import Atom, AtomType, Bond, BondType, Element, Molecule, Structure
from engine import sr
from engine.sr import CTX, SR, vec, E

REAL = os.environ.get("XH_REAL") == "1"
HAS_REAL = True
SPLIT = int(os.environ.get("XH_SPLIT", "-1"))
QUICK = os.environ.get("XH_THOROUGH") != "1" and os.environ.get("XH_REPLAY") != "1"
ORIG_MEAN_PLANE = CX.mean_plane


def pick(sel, n):
    for i in range(n):
        if sel == i:
            return i
    return 0


# ====================================================================================================================== SR: _cdxml_3dify_
class SymStructure(Structure, coords_dtype=object):
    pass


def _z(v):
    return np.array(list(v) + [0.0], dtype=object)


def _vol(c, i, nb):
    """signed volume spanned by three neighbours of atom i (its sign is the handedness of the centre)"""
    return sr.det3(np.array([c[j] - c[i] for j in nb], dtype=object).reshape((3, 3)))


NORMAL = {"v": None, "sign_free": False}


class _Linalg:
    """numpy.linalg for molli.math.rotation during SR runs: inv of a 3x3 object matrix by adjugate / determinant (exact), everything else numpy's"""

    def __getattr__(self, n):
        return getattr(np.linalg, n)

    @staticmethod
    def inv(R):
        R = np.asarray(R)
        if R.dtype != object:
            return np.linalg.inv(R)
        d = sr.det3(R)
        adj = np.array([[R[(j + 1) % 3, (i + 1) % 3] * R[(j + 2) % 3, (i + 2) % 3] - R[(j + 1) % 3, (i + 2) % 3] * R[(j + 2) % 3, (i + 1) % 3] for j in range(3)] for i in range(3)], dtype=object)
        return adj / d


class _NP:
    linalg = _Linalg()

    def __getattr__(self, n):
        return getattr(np, n)


def _shims():
    saved = (ROT.math, CX.mean_plane, ROT.np)
    ROT.math, CX.mean_plane, ROT.np = sr.mathshim, mean_plane_planar, _NP()
    return saved


def _unshim(saved):
    ROT.math, CX.mean_plane, ROT.np = saved


def mean_plane_planar(pts):
    """contract of mean_plane for points with equal z spanning a plane (validated against numpy's SVD on every run): exactly (0, 0, 1)"""
    p = np.asarray(pts, dtype=object)
    if all(not isinstance(x, SR) and float(x) == float(p[0][2]) for x in p[:, 2]):
        return np.array([0.0, 0.0, 1.0])
    if NORMAL["v"] is not None:
        return np.array([x if isinstance(x, SR) else SR(sr.lift(x)) for x in NORMAL["v"]], dtype=object)       # the (symbolic or exact rational) unit normal
    raise AssertionError("mean_plane called outside its modelled contract")


# --- templates: (label, atoms, bonds, marked bond (a1, a2), centres whose handedness is compared (centre, 3 neighbours), atoms that must not move)
def t_acyclic(k):
    """centre 0 with k neighbours 1..k, a chain atom k+1 on neighbour 1 and k+2 on neighbour 2; the mark is on bond 0 -> 1"""
    n = k + 3
    bonds = [(0, i) for i in range(1, k + 1)] + [(1, k + 1), (2, k + 2)]
    return dict(label=f"acyclic centre, {k} neighbours", n=n, bonds=bonds, mark=(0, 1), centres=[(0, (1, 2, 3))], fixed=[0] + list(range(2, k + 1)) + [k + 2], rigid={1: [(0, 1)]})


def t_ring():
    """four-membered ring 0-1-2-3 with substituents 4 on 0 (carrying 5), 6 on 1, 7 on 2; the mark is on the ring bond 0 -> 1"""
    bonds = [(0, 1), (1, 2), (2, 3), (3, 0), (0, 4), (4, 5), (1, 6), (2, 7)]
    return dict(label="ring bond", n=8, bonds=bonds, mark=(0, 1), centres=[(0, (1, 3, 4)), (1, (0, 2, 6))], fixed=[2, 3, 7], rigid={1: [(0, 4), (4, 5), (1, 6)], 2: [(0, 1), (0, 4), (4, 5), (1, 6)]})


TEMPLATES = {"acyclic3": t_acyclic(3), "acyclic4": t_acyclic(4), "ring": t_ring()}


def _build(T, coords):
    s = SymStructure([Atom("C") for _ in range(T["n"])], coords=np.array(coords, dtype=object).reshape((T["n"], 3)))
    for a, b in T["bonds"]:
        s.connect(a, b)
    return s


def _run3d(T, coords, sign, reverse=False):
    s = _build(T, coords)
    a1, a2 = T["mark"]
    nb0, bd0 = s.n_atoms, [(s.index_atom(b.a1), s.index_atom(b.a2), b.btype) for b in s.bonds]
    CX._cdxml_3dify_(s, a1, a2, sign=sign)
    same = s.n_atoms == nb0 and [(s.index_atom(b.a1), s.index_atom(b.a2), b.btype) for b in s.bonds] == bd0
    return s.coords, same


def g_mark(tname, mag):
    """one stereo mark on a planar drawing: run the real routine with sign = +mag and sign = -mag on the same symbolic page coordinates"""
    T = TEMPLATES[tname]

    def f():
        saved = _shims()
        NORMAL["v"] = None
        try:
            P = [_z(vec(f"p{i}_", 2)) for i in range(T["n"])]
            a1, a2 = T["mark"]
            d = P[a2] - P[a1]
            CTX.assume(E(d @ d) > 0)                                    # the marked bond has a length
            A, okA = _run3d(T, P, +mag)
            B, okB = _run3d(T, P, -mag)
            lab = f"{T['label']}, sign +-{mag}"
            goals = [(f"{lab}: constitution unchanged", z3.BoolVal(not (okA and okB)))]
            for i in T["fixed"]:
                goals += [(f"{lab}: atom {i} (not behind the marked bond) stays on the page [{k}]", z3.Or(E(A[i][k]) != E(P[i][k]), E(B[i][k]) != E(P[i][k]))) for k in range(3)]
            if mag == 1:
                goals += [(f"{lab}: wedge end nearer the viewer than the wedge begin", E(A[a2][2]) <= E(A[a1][2])),
                          (f"{lab}: hash end farther from the viewer than the hash begin", E(B[a2][2]) >= E(B[a1][2]))]
            else:
                goals += [(f"{lab}: bold bond in front of the page", z3.Or(E(A[a1][2]) <= 0, E(A[a2][2]) <= 0)),
                          (f"{lab}: hashed bond behind the page", z3.Or(E(B[a1][2]) >= 0, E(B[a2][2]) >= 0))]
            for ci, nb in T["centres"]:
                va, vb = _vol(A, ci, nb), _vol(B, ci, nb)
                goals += [(f"{lab}: handedness of centre {ci} inverted by mirroring the mark", z3.And(E(va) != 0, E(va * vb) >= 0)),
                          (f"control: {lab}: centre {ci} can be non-planar (must be sat)", E(va) != 0)]
            # the atoms behind the marked bond move rigidly (1e-9 relative: sin / cos of the concrete angle are floats)
            for a, b in T["rigid"][mag]:
                for X, nm in ((A, "wedge"), (B, "hash")):
                    dd, d0 = X[a] - X[b], P[a] - P[b]
                    l1, l0 = dd @ dd, d0 @ d0
                    goals += [(f"{lab}: bond {a}-{b} keeps its length ({nm})", z3.Or(E(l1 - l0) > sr.lift(1e-9) * E(l0), E(l0 - l1) > sr.lift(1e-9) * E(l0)))]
            return goals
        finally:
            _unshim(saved)
    return f


def replay_mark(tname, mag):
    T = TEMPLATES[tname]

    def rp(goal, model, path):
        P = np.array([[sr.fval(model, f"p{i}_0"), sr.fval(model, f"p{i}_1"), 0.0] for i in range(T["n"])])
        return _numeric_mark(T, P, mag, goal)
    return rp


def _numeric_mark(T, P, mag, goal=""):
    out = {}
    for sg in (+mag, -mag):
        s = Structure([Atom("C") for _ in range(T["n"])], coords=np.array(P, dtype=float))
        for a, b in T["bonds"]:
            s.connect(a, b)
        with warnings.catch_warnings():
            warnings.simplefilter("ignore")
            try:
                CX._cdxml_3dify_(s, *T["mark"], sign=sg)
            except Exception as e:
                return False, f"{T['label']} sign {sg} at page coordinates {np.round(P[:, :2], 4).tolist()}: raised {type(e).__name__}: {e}"
        out[sg] = s.coords.copy()
    A, B = out[+mag], out[-mag]
    a1, a2 = T["mark"]
    bad = []
    scale = max(1.0, float(np.abs(P).max())) ** 3
    for ci, nb in T["centres"]:
        va = float(np.linalg.det(np.array([A[j] - A[ci] for j in nb])))
        vb = float(np.linalg.det(np.array([B[j] - B[ci] for j in nb])))
        if abs(va) > 1e-9 * scale and va * vb >= 0:
            bad.append(f"centre {ci}: signed volume {va:.4g} with the wedge, {vb:.4g} with the hash (not inverted)")
    if mag == 2 and not (min(A[a1][2], A[a2][2]) > 0 and max(B[a1][2], B[a2][2]) < 0):
        bad.append(f"bold / hashed bond at z {A[a1][2]:.3g}, {A[a2][2]:.3g} / {B[a1][2]:.3g}, {B[a2][2]:.3g}")
    if mag == 1 and not (A[a2][2] > A[a1][2] and B[a2][2] < B[a1][2]):
        bad.append(f"marked atom z {A[a2][2]:.3g} (wedge) / {B[a2][2]:.3g} (hash) against begin atom z {A[a1][2]:.3g} / {B[a1][2]:.3g}")
    for i in T["fixed"]:
        if not (np.allclose(A[i], P[i], atol=1e-9 * scale) and np.allclose(B[i], P[i], atol=1e-9 * scale)):
            bad.append(f"atom {i} moved")
    where = f"{T['label']} sign +-{mag} at page coordinates {np.round(P[:, :2], 4).tolist()}"
    return (not bad), where + ": " + ("all clauses hold numerically" if not bad else "; ".join(bad))


# --- inductive step for a further mark on a centre that is no longer flat ------------------------------------------------------------------
# rational unit normals of the plane through the three neighbours (tilted by an earlier mark)
NORMALS = [(Fraction(0), Fraction(3, 5), Fraction(4, 5)), (Fraction(3, 5), Fraction(0), Fraction(4, 5)), (Fraction(2, 7), Fraction(3, 7), Fraction(6, 7)),
           (Fraction(2, 3), Fraction(-1, 3), Fraction(2, 3)), (Fraction(-6, 7), Fraction(2, 7), Fraction(3, 7))]
T_STEP = dict(label="further mark on a tilted centre", n=5, bonds=[(0, 1), (0, 2), (0, 3), (1, 4)], mark=(0, 1), centres=[(0, (1, 2, 3))], fixed=[0, 2, 3], moved=[1, 4])


def _inplane_fr(n):
    """two rational vectors spanning the plane orthogonal to n"""
    nx, ny, nz = n
    u = (nz, Fraction(0), -nx) if (nx, nz) != (0, 0) else (Fraction(1), Fraction(0), Fraction(0))
    w = (ny * u[2] - nz * u[1], nz * u[0] - nx * u[2], nx * u[1] - ny * u[0])
    return u, w


def _inplane_basis(n):
    u, w = _inplane_fr(n)
    return np.array([sr.SR(sr.lift(x)) for x in u], dtype=object), np.array([sr.SR(sr.lift(x)) for x in w], dtype=object)


def g_step(ni, sa, sb):
    """one step from an arbitrary state in which the three neighbours of the centre span a tilted plane with unit normal +-NORMALS[ni]:
    the model X gets the mark (+1), its mirror image MX the mirrored mark (-1); LAPACK's sign of the normal is free in both runs (sa, sb)"""
    n = NORMALS[ni]
    T = T_STEP

    def f():
        saved = _shims()
        try:
            u, w = _inplane_basis(n)
            o = vec("o")                                                   # a point of the neighbours' plane
            nb = [o + sr.sym(f"s{i}") * u + sr.sym(f"t{i}") * w for i in (1, 2, 3)]
            c = vec("c")                                                   # the centre, anywhere
            q = vec("q")                                                   # the atom behind the marked neighbour
            X = [c] + nb + [q]
            d = nb[0] - c
            CTX.assume(E(d[0] * d[0] + d[1] * d[1]) > 0)                   # the marked bond is visible on the page
            cr = np.cross(nb[1] - nb[0], nb[2] - nb[0])
            CTX.assume(E(cr @ cr) > 0)                                     # the three neighbours span their plane
            M = np.array([1, 1, -1], dtype=object)
            MX = [x * M for x in X]
            NORMAL["v"] = [sa * x for x in n]
            A, okA = _run3d(T, X, +1)
            NORMAL["v"] = [sb * x * (1 if k < 2 else -1) for k, x in enumerate(n)]
            B, okB = _run3d(T, MX, -1)
            lab = f"tilted centre n={tuple(str(x) for x in n)} svd signs ({sa:+d},{sb:+d})"
            va, vb = _vol(A, 0, (1, 2, 3)), _vol(B, 0, (1, 2, 3))
            goals = [(f"{lab}: constitution unchanged", z3.BoolVal(not (okA and okB))),
                     (f"control: {lab}: centre can be non-planar (must be sat)", E(va) != 0)]
            # sufficient condition, decided componentwise: the model of the mirrored drawing is the mirror image of the model (signed volumes are then
            # opposite).  A model of its negation is only a candidate: the replay evaluates the handedness clause itself on the real code.
            goals += [(f"{lab}: model of the mirrored drawing = mirror image of the model, atom {i} [{k}] (=> handedness inverted)", E(B[i][k]) != E(A[i][k]) * (1 if k < 2 else -1))
                      for i in (1, 4) for k in range(3)]
            for i in T["fixed"]:
                goals += [(f"{lab}: atom {i} stays [{k}]", z3.Or(E(A[i][k]) != E(X[i][k]), E(B[i][k]) != E(MX[i][k]))) for k in range(3)]
            return goals
        finally:
            NORMAL["v"] = None
            _unshim(saved)
    return f


def g_step_sym(sa, sb):
    """one step from an arbitrary state in which the three neighbours of the centre span ANY tilted plane: unit normal n symbolic (n_z != 0, |n_z| < 1),
    in-plane positions, centre and the atom behind the marked neighbour symbolic.  The state X gets the mark (+1), its mirror image MX the
    mirrored mark (-1); LAPACK's sign of the normal is free in both runs (sa, sb).  rotation_matrix_from_vectors runs as it is on the symbolic
    normal; numpy.linalg.inv is served by adjugate / determinant."""
    T = T_STEP

    def f():
        saved = _shims()
        try:
            n = vec("n")
            CTX.assume(E(n @ n) == 1, E(n[2]) != 0, E(n[2] * n[2]) < 1)
            ez = np.array([0, 0, 1], dtype=object)
            u = np.cross(n, ez)
            w = np.cross(n, u)
            o = vec("o")
            nb = [o + sr.sym(f"s{i}") * u + sr.sym(f"t{i}") * w for i in (1, 2, 3)]
            c, q = vec("c"), vec("q")
            X = [c] + nb + [q]
            d = nb[0] - c
            CTX.assume(E(d[0] * d[0] + d[1] * d[1]) > 0)                   # the marked bond is visible on the page
            cr = np.cross(nb[1] - nb[0], nb[2] - nb[0])
            CTX.assume(E(cr @ cr) > 0)                                     # the three neighbours span their plane
            M = np.array([1, 1, -1], dtype=object)
            MX = [x * M for x in X]
            NORMAL["v"] = list(sa * n)
            A, okA = _run3d(T, X, +1)
            NORMAL["v"] = list(sb * (n * M))
            B, okB = _run3d(T, MX, -1)
            lab = f"tilted centre, any plane, svd signs ({sa:+d},{sb:+d})"
            goals = [(f"{lab}: constitution unchanged", z3.BoolVal(not (okA and okB))),
                     (f"control: {lab}: the marked atom stays where it was (must be sat)", E(A[1][2]) != E(X[1][2]))]
            goals += [(f"{lab}: model of the mirrored drawing = mirror image of the model, atom {i} [{k}] (=> handedness inverted)", E(B[i][k]) != E(A[i][k]) * (1 if k < 2 else -1))
                      for i in (1, 4) for k in range(3)]
            for i in T["fixed"]:
                goals += [(f"{lab}: atom {i} stays [{k}]", z3.Or(E(A[i][k]) != E(X[i][k]), E(B[i][k]) != E(MX[i][k]))) for k in range(3)]
            return goals
        finally:
            NORMAL["v"] = None
            _unshim(saved)
    return f


def replay_step_sym(sa, sb):
    def rp(goal, model, path):
        n = np.array([sr.fval(model, f"n{k}") for k in range(3)])
        u = np.cross(n, [0, 0, 1.0])
        w = np.cross(n, u)
        o = np.array([sr.fval(model, f"o{k}") for k in range(3)])
        c = np.array([sr.fval(model, f"c{k}") for k in range(3)])
        q = np.array([sr.fval(model, f"q{k}") for k in range(3)])
        nb = [o + sr.fval(model, f"s{i}") * u + sr.fval(model, f"t{i}") * w for i in (1, 2, 3)]
        return _turn_and_check(np.array([c] + nb + [q]))
    return rp


_FOUND = {}


def _turn_and_check(X0):
    """the solver chose the sign LAPACK gives the normal; the real SVD cannot be told which sign to return.  The candidate is concretised on the real
    code: the model's geometry as it is and turned about the viewing axis in 1-degree steps, then a seeded search over tilted centres of the same
    family (random plane normal, neighbour positions in that plane, centre and substituent), each in 12 orientations, until the real code (real SVD)
    shows the handedness clause itself failing.  The solver's verdict says that a failing pose exists for some sign; the search only has to find one."""
    if "hit" in _FOUND:
        ok, detail = _numeric_step(_FOUND["hit"])
        if not ok:
            return False, detail
    if "hit2" in _FOUND:
        ok, detail = _numeric_two_marks(*_FOUND["hit2"])
        if not ok:
            return False, detail
    first = None
    for deg in range(0, 360):
        th = math.radians(deg)
        Rz = np.array([[math.cos(th), -math.sin(th), 0], [math.sin(th), math.cos(th), 0], [0, 0, 1]])
        ok, detail = _numeric_step(X0 @ Rz.T)
        if first is None:
            first = detail
        if not ok:
            _FOUND["hit"] = X0 @ Rz.T
            return False, detail
    rng = np.random.default_rng(13)
    for t in range(1500):
        n = rng.normal(size=3)
        n /= np.linalg.norm(n)
        if abs(n[2]) < 0.15 or abs(n[2]) > 0.97:
            continue
        u = np.cross(n, [0, 0, 1.0])
        u /= np.linalg.norm(u)
        w = np.cross(n, u)
        ang = np.sort(rng.uniform(0, 2 * np.pi, 3))
        if np.min(np.diff(np.append(ang, ang[0] + 2 * np.pi))) < 0.6:
            continue
        foot = rng.normal(size=3) * 0.3
        nb = [foot + 1.4 * (np.cos(a) * u + np.sin(a) * w) for a in ang]
        c = foot + n * rng.uniform(-0.6, 0.6)
        q = nb[0] + rng.normal(size=3)
        X = np.array([c] + nb + [q])
        for deg in range(0, 360, 30):
            th = math.radians(deg)
            Rz = np.array([[math.cos(th), -math.sin(th), 0], [math.sin(th), math.cos(th), 0], [0, 0, 1]])
            ok, detail = _numeric_step(X @ Rz.T)
            if not ok:
                _FOUND["hit"] = X @ Rz.T
                return False, detail
    # the same question on whole drawings: a flat centre with 3 or 4 neighbours, a wedge on one bond and a hash on another, against the mirrored marks
    for t in range(4000):
        k = int(rng.choice([3, 4]))
        ang = np.sort(rng.uniform(0, 2 * np.pi, k))
        if np.min(np.diff(np.append(ang, ang[0] + 2 * np.pi))) < 0.5:
            continue
        P = np.array([[0.0, 0.0, 0.0]] + [[1.5 * math.cos(a), 1.5 * math.sin(a), 0.0] for a in ang])
        i, j = (int(v) for v in rng.choice(range(1, k + 1), 2, replace=False))
        ok, detail = _numeric_two_marks(P, i, j)
        if not ok:
            _FOUND["hit2"] = (P, i, j)
            return False, detail
    return True, "model, its 359 turns about the viewing axis, 1500 x 12 random tilted centres and 4000 random two-mark drawings all pass with the real SVD: " + first


def _numeric_two_marks(P, i, j):
    out = []
    for s1, s2 in ((+1, -1), (-1, +1)):
        m = Structure([Atom("C") for _ in range(len(P))], coords=np.array(P, dtype=float))
        for b in range(1, len(P)):
            m.connect(0, b)
        with warnings.catch_warnings():
            warnings.simplefilter("ignore")
            CX._cdxml_3dify_(m, 0, i, sign=s1)
            CX._cdxml_3dify_(m, 0, j, sign=s2)
        out.append(m.coords.copy())
    A, B = out
    va = float(np.linalg.det(np.array([A[b] - A[0] for b in (1, 2, 3)])))
    vb = float(np.linalg.det(np.array([B[b] - B[0] for b in (1, 2, 3)])))
    where = f"flat centre with neighbours {np.round(P[1:, :2], 4).tolist()}, wedge on bond 0-{i} and hash on bond 0-{j} against the mirrored marks"
    if abs(va) > 1e-7 and va * vb >= 0:
        return False, where + f": signed volume {va:.4g} and {vb:.4g} (not inverted)"
    return True, where + ": handedness inverted"


def replay_step(ni, sa, sb):
    n = np.array([float(x) for x in NORMALS[ni]])

    def rp(goal, model, path):
        """the solver chose the sign LAPACK gives the normal; the real SVD cannot be told which sign to return, so the model's geometry is
        replayed as it is and turned about the viewing axis in 1-degree steps until the real code (real SVD) shows the violation"""
        u, w = _inplane_fr(NORMALS[ni])
        uf, wf = np.array([float(x) for x in u]), np.array([float(x) for x in w])
        o = np.array([sr.fval(model, f"o{k}") for k in range(3)])
        c = np.array([sr.fval(model, f"c{k}") for k in range(3)])
        q = np.array([sr.fval(model, f"q{k}") for k in range(3)])
        nb = [o + sr.fval(model, f"s{i}") * uf + sr.fval(model, f"t{i}") * wf for i in (1, 2, 3)]
        return _turn_and_check(np.array([c] + nb + [q]))
    return rp


def _numeric_step(X):
    T = T_STEP
    out = []
    for Y, sg in ((X, +1), (X * [1, 1, -1], -1)):
        s = Structure([Atom("C") for _ in range(T["n"])], coords=np.array(Y, dtype=float))
        for a, b in T["bonds"]:
            s.connect(a, b)
        with warnings.catch_warnings():
            warnings.simplefilter("ignore")
            try:
                CX._cdxml_3dify_(s, 0, 1, sign=sg)
            except Exception as e:
                return False, f"raised {type(e).__name__}: {e} at {np.round(Y, 4).tolist()}"
        out.append(s.coords.copy())
    A, B = out
    va = float(np.linalg.det(np.array([A[j] - A[0] for j in (1, 2, 3)])))
    vb = float(np.linalg.det(np.array([B[j] - B[0] for j in (1, 2, 3)])))
    scale = max(1.0, float(np.abs(X).max())) ** 3
    where = f"centre with neighbours in a tilted plane, coordinates {np.round(X, 4).tolist()}"
    if abs(va) > 1e-7 * scale and va * vb >= 0:
        return False, where + f": signed volume {va:.4g} after the wedge, {vb:.4g} after the hash on the mirror image (not inverted)"
    return True, where + ": handedness inverted"


def validate_mean_plane():
    """contract used by the SR part, checked against numpy's SVD: for >= 2 points with equal z that are not all on one line, mean_plane is exactly +z"""
    rng = np.random.default_rng(7)
    k = 0
    for n in (2, 3, 4, 5):
        for t in range(400):
            p = np.zeros((n, 3))
            p[:, :2] = rng.normal(size=(n, 2)) * rng.choice([0.1, 1, 10, 100])
            p[:, 2] = rng.choice([0.0, 0.0, 1.5, -0.75])
            if n > 2:
                d1, d2 = p[1, :2] - p[0, :2], p[2:, :2] - p[0, :2]
                cp = d1[0] * d2[:, 1] - d1[1] * d2[:, 0]
                if np.abs(cp).max() < 1e-6:
                    continue
            v = ORIG_MEAN_PLANE(p)
            assert np.allclose(v, [0, 0, 1], atol=1e-12), ("mean_plane contract (planar -> +z) does not hold", p, v)
            k += 1
    return k


# ========================================================================================================================== XH: constitution
class N:
    """pure-Python stand-in for xml.etree.ElementTree.Element, for exactly the calls molli.ftypes.cdxml makes (validated against ElementTree)"""

    def __init__(self, tag, attrib=None, children=(), text=None):
        self.tag, self.attrib, self.children, self.text = tag, dict(attrib or {}), list(children), text

    def get(self, k, default=None):
        return self.attrib.get(k, default)

    def __iter__(self):
        return iter(self.children)

    def __len__(self):
        return len(self.children)

    def __getitem__(self, i):
        return self.children[i]

    def findall(self, path):
        if path == "./n":
            return [c for c in self.children if c.tag == "n"]
        if path == "./b":
            return [c for c in self.children if c.tag == "b"]
        if path == "./b[@Display]":
            return [c for c in self.children if c.tag == "b" and "Display" in c.attrib]
        if path == "./n/[fragment]":
            return [c for c in self.children if c.tag == "n" and any(g.tag == "fragment" for g in c.children)]
        raise NotImplementedError(path)

    def find(self, path):
        if path == "./fragment":
            return next((c for c in self.children if c.tag == "fragment"), None)
        if path == "./t/s":
            for c in self.children:
                if c.tag == "t":
                    for g in c.children:
                        if g.tag == "s":
                            return g
            return None
        raise NotImplementedError(path)


def to_et(n):
    import xml.etree.ElementTree as ET
    e = ET.Element(n.tag, {k: str(v) for k, v in n.attrib.items()})
    e.text = n.text
    for c in n.children:
        e.append(to_et(c))
    return e


def from_et(e):
    return N(e.tag, dict(e.attrib), [from_et(c) for c in e], e.text)


def _parser(bond_length=30.0):
    p = object.__new__(CX.CDXMLFile)
    p.bond_length = float(bond_length)
    return p


ELEMS = [None, 6, 7, 8, 15, 26, 1, 118]
RADS = [None, "Doublet", "Singlet"]
ORDERS = [None, "1", "2", "3", "1.5"]
WANT_ORDER = [BondType.Single, BondType.Single, BondType.Double, BondType.Triple, BondType.Aromatic]
MARKS = [None, "WedgeBegin", "WedgedHashBegin", "WedgeEnd", "WedgedHashEnd", "Bold", "Hash"]
MIRROR = {None: None, "WedgeBegin": "WedgedHashBegin", "WedgedHashBegin": "WedgeBegin", "WedgeEnd": "WedgedHashEnd", "WedgedHashEnd": "WedgeEnd", "Bold": "Hash", "Hash": "Bold"}
IDS = [("1", "2", "3", "4", "5"), ("17", "4", "9", "30", "2"), ("a5", "a1", "a3", "a2", "a4")]
OFFS = [(0.0, 0.0), (250.0, -40.0), (-1000.5, 333.25)]
# page positions (y grows downwards) of a centre with up to four substituents, bond length 30
POS = [(100.0, 100.0), (130.0, 100.0), (85.0, 74.0), (85.0, 126.0), (160.0, 100.0)]
GRAPHS = [[(0, 1)], [(0, 1), (0, 2)], [(0, 1), (0, 2), (0, 3)], [(0, 1), (0, 2), (0, 3), (1, 4)]]


def _fragment(g, ids, off, elems, charges, isos, rads, nh, ap, orders, mark, mark_bond, reverse_nodes=False):
    bonds = GRAPHS[g]
    n = max(max(b) for b in bonds) + 1
    nodes = []
    for i in range(n):
        a = {"id": ids[i], "p": f"{POS[i][0] + off[0]} {POS[i][1] + off[1]}"}
        if ap == i:
            a["NodeType"] = "ExternalConnectionPoint"
            a["ExternalConnectionNum"] = "1"
        else:
            # numeric attributes: molli passes each through int() at once.  int(str(x)) of a symbolic x is a C boundary for CrossHair (the string is
            # realised), so the element model hands the number over as it is; the real replay renders it into the XML attribute string
            if elems[i] is not None:
                a["Element"] = elems[i]
            if isos[i] is not None:
                a["Isotope"] = isos[i]
            if charges[i] is not None:
                a["Charge"] = charges[i]
            if rads[i] is not None:
                a["Radical"] = rads[i]
            if nh[i] is not None:
                a["NumHydrogens"] = nh[i]
        nodes.append(N("n", a))
    bs = []
    for k, (b, e) in enumerate(bonds):
        a = {"id": f"b{k}", "B": ids[b], "E": ids[e]}
        if orders[k] is not None:
            a["Order"] = orders[k]
        if mark is not None and k == mark_bond:
            a["Display"] = mark
        bs.append(N("b", a))
    if reverse_nodes:
        nodes = nodes[::-1]
    return N("fragment", {"id": "f1"}, nodes + bs), n, bonds


def _chir(m, i):
    nb = [m.index_atom(x) for x in m.connected_atoms(m.atoms[i])]
    if len(nb) < 3:
        return 0.0
    c = m.coords
    return float(np.linalg.det(np.array([c[j] - c[i] for j in sorted(nb)[:3]])))


def h_frag(g: int, idsel: int, offsel: int, e0: int, e1: int, q0: Optional[int], q1: Optional[int], q2: int, i0: Optional[int], i1: Optional[int], r0: int, r1: int,
           h0: Optional[int], h1: Optional[int], ap: int, o0: int, o1: int, mark: int, mark_bond: int, rev: bool) -> bool:
    """
    a drawn fragment with 2-5 nodes: charges / isotopes / hydrogen counts, selector-chosen elements, radicals, attachment point, bond orders, one
    stereo mark; ids renumbered, nodes listed in reverse, page translated.  Plain function (no contract): h_atoms and h_bonds are the obligations.
    """
    g = pick(g, len(GRAPHS))
    ids, off = IDS[pick(idsel, 3)], OFFS[pick(offsel, 3)]
    n = max(max(b) for b in GRAPHS[g]) + 1
    elems = [ELEMS[pick(e0, len(ELEMS))], ELEMS[pick(e1, len(ELEMS))], 6, None, 9][:n]
    charges = [q0, q1, q2, None, None][:n]
    isos = [i0, i1, None, None, None][:n]
    rads = [RADS[pick(r0, 3)], RADS[pick(r1, 3)], None, None, None][:n]
    nh = [h0, h1, None, None, None][:n]
    ap = pick(ap + 1, 4) - 1
    if ap >= n:
        ap = -1
    nb = len(GRAPHS[g])
    orders = [ORDERS[pick(o0, len(ORDERS))], ORDERS[pick(o1, len(ORDERS))], None, None][:nb]
    mk = MARKS[pick(mark, len(MARKS))]
    mb = pick(mark_bond, 2)
    if mb >= nb:
        mb = 0
    frag, n, bonds = _fragment(g, ids, off, elems, charges, isos, rads, nh, ap, orders, mk, mb, rev)
    P = _parser()
    src = to_et(frag) if REAL else frag
    m = P._parse_fragment(src, name="frag")
    order = list(range(n))[::-1] if rev else list(range(n))
    if m.n_atoms != n or m.n_bonds != nb or m.name != "frag":
        return False                                               # one atom per drawn node, one bond per drawn bond
    tot_q, tot_s = 0, 0
    for pos, i in enumerate(order):
        a = m.atoms[pos]
        if i == ap:
            if a.atype != AtomType.AttachmentPoint or a.element != Element.Unknown:
                return False                                       # attachment point where drawn
            continue
        we = Element.C if elems[i] is None else Element(elems[i])
        if a.element != we or a.atype != AtomType.Regular:
            return False
        if a.isotope != isos[i]:
            return False
        wq = 0 if charges[i] is None else charges[i]
        if a.formal_charge != wq:
            return False
        ws = {None: 0, "Doublet": 1, "Singlet": 2}[rads[i]]
        if a.formal_spin != ws:
            return False
        tot_q, tot_s = tot_q + wq, tot_s + ws
    if m.charge != tot_q or m.mult != tot_s + 1:
        return False                                               # total charge and multiplicity follow
    pos_of = {i: pos for pos, i in enumerate(order)}
    for k, (b, e) in enumerate(bonds):
        bd = m.bonds[k]
        if {m.index_atom(bd.a1), m.index_atom(bd.a2)} != {pos_of[b], pos_of[e]}:
            return False
        if bd.btype != WANT_ORDER[ORDERS.index(orders[k])]:
            return False                                           # the drawn order
    # the same drawing with the stereo mark mirrored: same constitution, every non-planar centre inverted; same drawing parsed again: identical
    if mk is None:
        return True
    frag2, _, _ = _fragment(g, ids, off, elems, charges, isos, rads, nh, ap, orders, MIRROR[mk], mb, rev)
    m2 = P._parse_fragment(to_et(frag2) if REAL else frag2, name="frag")
    m3 = P._parse_fragment(src, name="frag")
    if [a.element for a in m2.atoms] != [a.element for a in m.atoms] or [(m2.index_atom(b.a1), m2.index_atom(b.a2), b.btype) for b in m2.bonds] != [(m.index_atom(b.a1), m.index_atom(b.a2), b.btype) for b in m.bonds]:
        return False
    if not np.array_equal(m3.coords, m.coords):
        return False                                               # parsing is deterministic
    for i in range(n):
        c1, c2 = _chir(m, i), _chir(m2, i)
        if abs(c1) > 1e-6 and c1 * c2 >= 0:
            return False
    return True


def h_atoms(e0: int, r0: int, ap: int, q0: Optional[int], q1: int, i0: Optional[int], h0: Optional[int]) -> bool:
    """
    node attributes: symbolic charge / isotope / hydrogen count (absent or rendered into the attribute string), element, radical and attachment
    point by selector, on the three-neighbour fragment
    pre: 0 <= e0 < len(ELEMS) and 0 <= r0 < 3 and -1 <= ap <= 2
    pre: (q0 is None or -4 <= q0 <= 4) and -4 <= q1 <= 4 and (i0 is None or 1 <= i0 <= 300) and (h0 is None or 0 <= h0 <= 4)
    pre: SPLIT < 0 or e0 == SPLIT
    pre: not QUICK or ap <= 0
    post: _
    """
    return h_frag(2, 0, 0, e0, 1, q0, q1, 0, i0, None, r0, 1, h0, None, ap, 0, 2, 0, 0, False)


def h_bonds(g: int, idsel: int, o0: int, o1: int, mark: int, mark_bond: int, rev: bool, offsel: int) -> bool:
    """
    bonds and stereo marks: graph, id numbering, bond orders, the mark and the bond that carries it, listing order of the nodes, page offset
    (the numeric part - coordinates, handedness of the model and of the mirrored drawing's model - runs on these concrete cells)
    pre: 0 <= g < len(GRAPHS) and 0 <= idsel < 3 and 0 <= o0 < len(ORDERS) and 0 <= o1 < len(ORDERS) and 0 <= mark < len(MARKS) and 0 <= mark_bond <= 1 and 0 <= offsel < 3
    pre: SPLIT < 0 or (mark == SPLIT // 4 and g == SPLIT % 4)
    pre: not QUICK or (idsel == (g + o0) % 3 and offsel == (o0 + o1) % 3 and rev == ((o0 + mark_bond) % 2 == 0))
    post: _
    """
    return h_frag(g, idsel, offsel, 2, 0, 1, None, -1, None, 13, 1, 0, None, 2, -1, o0, o1, mark, mark_bond, rev)


# ------------------------------------------------------------------------------------------------ label lookups on real files (CDXMLFile.__getitem__)
# three drawn fragments: (elements, charges, radicals, bonds with order, stereo mark on bond 0)
PAGE = [dict(name="alpha", el=[7, 6, 6, 8], q=[1, 0, 0, 0], rad=[None, None, None, None], bonds=[(0, 1, None), (0, 2, None), (0, 3, "2")], mark="WedgeBegin"),
        dict(name="beta", el=[6, 6, 17], q=[0, 0, -1], rad=["Doublet", None, None], bonds=[(0, 1, "2"), (1, 2, None)], mark=None),
        dict(name="gamma", el=[15, 6, 6, 6, 9], q=[0, 0, 0, 0, 0], rad=[None] * 5, bonds=[(0, 1, None), (0, 2, None), (0, 3, None), (1, 4, None)], mark="WedgedHashBegin")]
LAYOUTS = [((0, 1, 2), (0.0, 0.0), 1), ((2, 0, 1), (310.0, 95.5), 40), ((1, 2, 0), (-20.0, 400.0), 7)]      # fragment order in the file, page offset, first id


def _page_xml(order, off, id0):
    """a CDXML text with the three fragments in the given file order, each with its bold label below it; ids numbered from id0; everything shifted by off"""
    out = ['<?xml version="1.0" encoding="UTF-8" ?>', '<CDXML BondLength="30">', '<page id="1">']
    nid = id0
    labels = []
    for slot, fi in enumerate(order):
        F = PAGE[fi]
        x0, y0 = 100.0 + 200.0 * fi + off[0], 100.0 + off[1]
        pts = [(x0 + POS[i][0] - 100.0, y0 + POS[i][1] - 100.0) for i in range(len(F["el"]))]
        xs, ys = [p[0] for p in pts], [p[1] for p in pts]
        out.append(f'<fragment id="{nid}" BoundingBox="{min(xs)} {min(ys)} {max(xs)} {max(ys)}">')
        nid += 1
        ids = []
        for i, e in enumerate(F["el"]):
            a = f'<n id="{nid}" p="{pts[i][0]} {pts[i][1]}"' + (f' Element="{e}"' if e != 6 else "") + (f' Charge="{F["q"][i]}"' if F["q"][i] else "") + (f' Radical="{F["rad"][i]}"' if F["rad"][i] else "") + " />"
            ids.append(nid)
            nid += 1
            out.append(a)
        for k, (b, e, o) in enumerate(F["bonds"]):
            out.append(f'<b id="{nid}" B="{ids[b]}" E="{ids[e]}"' + (f' Order="{o}"' if o else "") + (f' Display="{F["mark"]}"' if (k == 0 and F["mark"]) else "") + " />")
            nid += 1
        out.append("</fragment>")
        labels.append(f'<t id="{nid}" p="{(min(xs) + max(xs)) / 2} {max(ys) + 25.0}"><s font="3" size="10" face="1">{F["name"]}</s></t>')
        nid += 1
    out += labels[::-1] + ["</page>", "</CDXML>"]
    return "\n".join(out)


_FILES = []


def _page_files():
    """the generated files are written once per process, outside any symbolic run (CrossHair does not let traced code write files)"""
    if not _FILES:
        import tempfile, atexit, shutil
        d = tempfile.mkdtemp(prefix="c13_pages_")
        atexit.register(shutil.rmtree, d, True)
        for k, (order, off, id0) in enumerate(LAYOUTS):
            fn = os.path.join(d, f"page{k}.cdxml")
            with open(fn, "w") as f:
                f.write(_page_xml(order, off, id0))
            _FILES.append(fn)
    return _FILES


_page_files()
with warnings.catch_warnings():
    warnings.simplefilter("ignore")
    _ref = CX.CDXMLFile(_page_files()[0])
    REF = {F["name"]: _ref[F["name"]].coords.copy() for F in PAGE}         # fresh parse of the reference layout, taken once per process
MUTS = ["none", "add_implicit_hydrogens", "charge", "mirror", "del_atom", "translate"]


def _matches(m, F):
    if m.n_atoms != len(F["el"]) or m.n_bonds != len(F["bonds"]) or m.name != F["name"]:
        return False
    if [int(a.element) for a in m.atoms] != F["el"] or [a.formal_charge for a in m.atoms] != F["q"]:
        return False
    if m.charge != sum(F["q"]) or m.mult != 1 + sum({None: 0, "Doublet": 1, "Singlet": 2}[r] for r in F["rad"]):
        return False
    for bd, (b, e, o) in zip(m.bonds, F["bonds"]):
        if {m.index_atom(bd.a1), m.index_atom(bd.a2)} != {b, e} or bd.btype != WANT_ORDER[ORDERS.index(o)]:
            return False
    return True


def h_lookup(layout: int, k1: int, mut: int, k2: int, by_index: bool, k3: int) -> bool:
    """
    histories of label lookups on one CDXMLFile object (real ElementTree, real KD-tree, generated 3-fragment files in 3 layouts): look a label up,
    modify the molecule that came back, look labels up again (by name or position): every lookup gives the drawn fragment of that label, as a
    fresh parse gives it, whatever was looked up or done to earlier results; the layout (file order, page offset, id numbering) does not matter
    pre: 0 <= layout < len(LAYOUTS) and 0 <= k1 < 3 and 0 <= mut < len(MUTS) and 0 <= k2 < 3 and 0 <= k3 < 3
    pre: SPLIT < 0 or (layout == SPLIT // 3 and k1 == SPLIT % 3)
    pre: not QUICK or (k3 == (k1 + 1) % 3 and by_index == (k2 == 1))
    post: _
    """
    fn = _page_files()[pick(layout, len(LAYOUTS))]
    k1, k2, k3, mu = pick(k1, 3), pick(k2, 3), pick(k3, 3), MUTS[pick(mut, len(MUTS))]
    with warnings.catch_warnings():
        warnings.simplefilter("ignore")
        F = CX.CDXMLFile(fn)
        keys = list(F.keys())
        if sorted(keys) != ["alpha", "beta", "gamma"]:
            return False
        m1 = F[PAGE[k1]["name"]]
        if not _matches(m1, PAGE[k1]):
            return False
        if mu == "add_implicit_hydrogens":
            m1.add_implicit_hydrogens()
        elif mu == "charge":
            m1.charge = m1.charge + 1
            m1.atoms[0].formal_charge = 3
        elif mu == "mirror":
            m1.coords[:, 2] *= -1
        elif mu == "del_atom":
            m1.del_atom(m1.atoms[-1])
        elif mu == "translate":
            m1.translate([1.0, 2.0, 3.0])
        for kk, idx in ((k2, by_index), (k3, False)):
            name = PAGE[kk]["name"]
            m = F[keys.index(name)] if idx else F[name]
            if not _matches(m, PAGE[kk]):
                return False
            if not np.allclose(m.coords, REF[name], atol=1e-9):
                return False                                        # same model as a fresh parse of the reference layout (centred coordinates)
    return True


# -------------------------------------------------------------------------------------------------- element model validated on the bundled files
def validate_element_model():
    """(a) N answers find/findall/get/iteration like ElementTree on every fragment of every bundled CDXML file and on generated fragments;
    (b) _parse_fragment gives the same molecule from the model as from the real element (atoms, bonds, coordinates)"""
    import glob, xml.etree.ElementTree as ET
    k = 0
    frs = []
    for f in sorted(glob.glob(os.path.join(os.path.dirname(CX.__file__), "..", "files", "*.cdxml"))):
        root = ET.parse(f).getroot()
        bl = float(root.attrib["BondLength"])
        for fr in root.findall("./page/fragment") + root.findall("./page/group/fragment"):
            if any(x.tag == "b" for x in fr):
                frs.append((fr, bl))
    for g in range(len(GRAPHS)):
        fr, _, _ = _fragment(g, IDS[g % 3], OFFS[g % 3], [7, None, 6, None, 9], [1, None, -1, None, None], [15, None, None, None, None], ["Doublet", None, None, None, None],
                             [2, None, None, None, None], 1 if g else -1, ["2", None, None, None], MARKS[1 + g], 0)
        frs.append((to_et(fr), 30.0))
    for fr, bl in frs:
        nm = from_et(fr)
        for path in ("./n", "./b", "./b[@Display]", "./n/[fragment]"):
            assert [x.get("id") for x in fr.findall(path)] == [x.get("id") for x in nm.findall(path)], path
        for node, nn in zip(fr.findall("./n"), nm.findall("./n")):
            s1, s2 = node.find("./t/s"), nn.find("./t/s")
            assert (s1 is None) == (s2 is None) and (s1 is None or s1.text == s2.text)
            f1, f2 = node.find("./fragment"), nn.find("./fragment")
            assert (f1 is None) == (f2 is None)
        with warnings.catch_warnings():
            warnings.simplefilter("ignore")
            try:
                a = _parser(bl)._parse_fragment(fr, name="x")
            except SyntaxError:
                a = None
            try:
                b = _parser(bl)._parse_fragment(nm, name="x")
            except SyntaxError:
                b = None
        assert (a is None) == (b is None)
        if a is not None:
            assert [(x.element, x.label, x.isotope, x.formal_charge, x.formal_spin, x.atype) for x in a.atoms] == [(x.element, x.label, x.isotope, x.formal_charge, x.formal_spin, x.atype) for x in b.atoms]
            assert [(a.index_atom(x.a1), a.index_atom(x.a2), x.btype) for x in a.bonds] == [(b.index_atom(x.a1), b.index_atom(x.a2), x.btype) for x in b.bonds]
            assert np.allclose(a.coords, b.coords, atol=1e-9)
        k += 1
    return k


ENCODED = ["molli.ftypes.cdxml.CDXMLFile.__getitem__", "molli.ftypes.cdxml.CDXMLFile.__attrs_post_init__", "molli.ftypes.cdxml._cdxml_3dify_", "molli.ftypes.cdxml.CDXMLFile._parse_fragment", "molli.ftypes.cdxml.CDXMLFile._parse_atom_node", "molli.ftypes.cdxml.CDXMLFile._parse_bond",
           "molli.ftypes.cdxml.position", "molli.math.rotation.rotate_2dvec_outa_plane", "molli.math.rotation.rotation_matrix_from_axis", "molli.math.rotation.rotation_matrix_from_vectors",
           "molli.chem.geometry.CartesianGeometry.translate", "molli.chem.geometry.CartesianGeometry.transform", "molli.chem.structure.Substructure"]

SR_CASES = [("acyclic3", 1), ("acyclic4", 1), ("ring", 1), ("ring", 2)]


def run(rep, tier):
    from engine import xh
    from engine.common import Obligation
    rep.encoded = ENCODED
    rep.extra["module"] = "harness.C13"
    q = tier == "quick"
    rep.models_validated += validate_mean_plane() + validate_element_model()
    rep.bounds = {"SR single mark": "planar drawings with ALL page coordinates symbolic reals: a centre with 3 / 4 neighbours (60 / 90 degree branch) and atoms behind two of them, a four-membered ring with substituents "
                                    "(ring-bond branch); marks Wedge/WedgedHash (sign +-1) and Bold/Hash (sign +-2)",
                  "SR further mark": "one step from an arbitrary state whose three neighbours span ANY tilted plane (unit normal symbolic with n_z != 0 and |n_z| < 1; in-plane positions, centre and substituent symbolic); "
                                     "the model and its mirror image get mirrored marks; the sign LAPACK gives the normal is free in both runs; cross-checked on rational normals",
                  "XH constitution": "fragments of 2-5 nodes (4 graphs): charges in [-4,4], isotopes in [1,300], hydrogen counts in [0,4] symbolic ints rendered into attribute strings (absent or present); elements from "
                                     f"{ELEMS}, radicals {RADS}, attachment point on any of the first three nodes, bond orders {ORDERS}, one stereo mark from {MARKS[1:]} on either of the first two bonds, 3 id numberings, "
                                     "nodes listed forwards / backwards, 3 page offsets",
                  "XH lookups": "real CDXMLFile objects on generated 3-fragment files in 3 layouts (file order, page offset, id numbering): lookup, one of 6 modifications of the returned molecule, "
                                "two more lookups by label or position [selector-bound]"}
    rep.outside = ["label -> fragment resolution for arbitrary page geometry (scipy's KDTree is not encoded; lookups are exercised on generated pages with each label below its fragment, and on nothing else)",
                   "nested fragments (Molecule.join is C12's subject), multi-attachment (hapto) centres, 'Triplet' radicals, dashed (dative) bonds",
                   "centres with four neighbours that are no longer flat (mean plane = least squares, not encoded), neighbour planes edge-on to the viewer (n_z = 0); reals, not floats",
                   "the SVD inside mean_plane: contract 'flat point set -> +z' (validated against numpy each run) and 'tilted plane -> +- its unit normal, sign free'"]
    rep.assumptions = ["SR: mean_plane replaced by its contract; math.sin/cos of the concrete angles are the float values molli computes, lifted exactly to rationals",
                       "XH: ElementTree elements replaced by a pure-Python element model (validated on every fragment of every bundled CDXML file: same find/findall answers, same parsed molecule)"]
    # ---- SR
    T = 120 if q else 600
    jobs = []
    for tname, mag in SR_CASES:
        jobs.append((f"mark[{tname},{mag}]", g_mark(tname, mag), replay_mark(tname, mag)))
    for sa, sb in itertools.product((1, -1), (1, -1)):
        jobs.append((f"stepsym[{sa:+d},{sb:+d}]", g_step_sym(sa, sb), replay_step_sym(sa, sb)))
    for ni in (range(1) if q else range(len(NORMALS))):                    # the same step on concrete rational normals (cross-check of the symbolic one)
        for sa, sb in itertools.product((1, -1), (1, -1)):
            jobs.append((f"step[{ni},{sa:+d},{sb:+d}]", g_step(ni, sa, sb), replay_step(ni, sa, sb)))
    for label, fn, rp in jobs:
        try:
            paths = sr.explore(fn, max_paths=8)
        except sr.PathBound as e:
            rep.add(Obligation(name=f"{label}/explore", engine="SR", status="inconclusive", detail=str(e)))
            continue
        rep.samples.append({"function": label, "feasible_paths": [p["decisions"] for p in paths], "goals_per_path": [len(p["goals"]) for p in paths]})
        ctrl = tuple(g[0] for p in paths for g in p["goals"] if g[0].startswith("control:"))
        sr.discharge(rep, label, paths, timeout=T, replay=rp, expect_sat=ctrl)
    # ---- XH
    env = {} if q else {"XH_THOROUGH": "1"}
    # quick tier: no mark, a wedge and a bold bond (hash / end variants differ only in the sign and the argument order handed to _cdxml_3dify_, which the SR part covers), elements C (implicit), N, Fe, Og; the thorough tier takes every mark and element
    specs = [{"fn": "h_bonds", "timeout": 900 if q else 3000, "split": 4 * mk + g, "env": env} for mk in ((0, 1, 5) if q else range(len(MARKS))) for g in range(len(GRAPHS))]
    specs += [{"fn": "h_atoms", "timeout": 900 if q else 3000, "split": e, "env": env} for e in ((0, 2, 5, 7) if q else range(len(ELEMS)))]
    specs += [{"fn": "h_lookup", "timeout": 900 if q else 3000, "split": sp, "env": env} for sp in ((0, 4, 8) if q else range(9))]      # quick: first lookup k in layout k
    xh.run_obligations(rep, "harness.C13", specs)


def replay(d):
    import re
    m = re.match(r"mark\[(\w+),(\d)\]", d["label"])
    if m:
        return replay_mark(m.group(1), int(m.group(2)))(d["goal"], d["model"], None)
    m = re.match(r"stepsym\[([+-]\d),([+-]\d)\]", d["label"])
    if m:
        return replay_step_sym(int(m.group(1)), int(m.group(2)))(d["goal"], d["model"], None)
    m = re.match(r"step\[(\d+),([+-]\d),([+-]\d)\]", d["label"])
    return replay_step(int(m.group(1)), int(m.group(2)), int(m.group(3)))(d["goal"], d["model"], None)
