"""C04 — sessions are serialised and survive failing sessions (XH; fault_sequences + session-granularity histories).

Real multi-process schedules and the correctness of fasteners' fcntl locks are outside the technique (see DESIGN.md)."""
import os
from io import UnsupportedOperation
from harness.storage_env import *   # noqa

HAS_REAL = True
SPLIT = int(os.environ.get("XH_SPLIT", "-1"))
MON = {"bad": 0}


def _monitor(path, mode):
    """call-site level writer exclusion: the file is opened for update only while the write lock is held,
    and read only while a read or write lock is held"""
    st = E.RWLock.registry.get(path, {"r": 0, "w": 0})
    if mode == "rb":
        if st["r"] < 1 and st["w"] != 1:
            MON["bad"] += 1
    elif st["w"] != 1:
        MON["bad"] += 1


class Boom(Exception):
    pass


def _enc(v):
    if v == b"BOOM":
        raise Boom("encoder")
    return v


FAULTS = ["none", "body", "encoder", "write", "close", "open", "dupflush", "update_keys"]


def _check_after(p, c, committed, attempted):
    """post-state: lock free, file closed, next sessions proceed on this and on a second handle,
    completed sessions' records exact, nothing torn"""
    if lock_state(p) != (0, 0):
        return False
    be = c._backend if hasattr(c, "_backend") else c
    if hasattr(be, "_ukvfile") and not be._ukvfile.closed:
        return False
    if be._state != "idle":
        return False
    # the same handle keeps working
    with c.writing():
        c["z"] = b"zz"
    d = Collection(p, UkvCollectionBackend, readonly=True)
    with d.reading():
        keys = list(d.keys())
        for k, v in committed + [("z", b"zz")]:
            if not any(k == x for x in keys) or d[k] != v:
                return False
        for x in keys:
            if any(x == k for k, _ in committed) or x == "z":
                continue
            vals = [v for k, v in attempted if x == k]      # a record of the failed session: complete and exact, or absent
            if not vals or not any(d[x] == v for v in vals):
                return False
    with c.reading():
        for k, v in committed + [("z", b"zz")]:
            if c[k] != v:
                return False
        for x in list(c.keys()):
            known = [v for k, v in committed + [("z", b"zz")] + attempted if k == x]
            if not known or not any(c[x] == v for v in known):
                return False
    return lock_state(p) == (0, 0)


def h_fault_writing(fault: int, kth: int, bufsel: int, nv: int, x: int, y: int, first_use: bool) -> bool:
    """
    One fault at a symbolic step of a writing() session (through Collection), then the post-state oracle.
    pre: 0 <= fault < len(FAULTS) and 1 <= kth <= 7 and 0 <= bufsel <= 1 and 0 <= nv <= 2 and isbyte(x, y)
    pre: SPLIT < 0 or fault == SPLIT
    post: _
    """
    v = mkb(nv, x, y)
    p = new_path()
    MON["bad"] = 0
    if not REAL:
        E.FakePath.lock_monitor = _monitor
    c = Collection(p, UkvCollectionBackend, _enc, None, readonly=False, bufsize=(-1 if bufsel == 0 else 150))
    committed = []
    if not first_use:                 # the handle has (or has not) been through a session before: begin_* takes different branches
        with c.writing():
            c["a"] = b"av"
        committed = [("a", b"av")]
    kind = FAULTS[fault]
    attempted = [("k1", v), ("k2", b"w")]
    be = c._backend
    if kind == "update_keys":
        def _raise():
            raise Boom("update_keys")
        be.update_keys = _raise
    if kind in ("write", "close", "open"):
        FAULT.arm(kind, kth if kind == "write" else 1)
    try:
        with c.writing():
            if kind == "update_keys":
                del be.update_keys
            c["k1"] = v
            if kind == "body":
                raise Boom("body")
            if kind == "encoder":
                c["k2"] = b"BOOM"
            if kind == "dupflush":
                c["k1"] = b"other"
            c["k2"] = b"w"
        completed = True
    except (Boom, InjectedFault, KeyError):
        completed = False
    finally:
        FAULT.disarm()
        if "update_keys" in be.__dict__:
            del be.update_keys
    if kind == "none" and not completed:
        return False
    if completed:
        committed = committed + attempted
        attempted = []
    if kind == "dupflush":
        attempted = attempted + [("k1", b"other")]
    ok = _check_after(p, c, committed, attempted)
    return ok and MON["bad"] == 0


def h_fault_reading(fault: int, first_use: bool, nv: int, x: int) -> bool:
    """
    One fault at a step of a reading() session (body, close, open, update_keys), through Collection and the bare backend.
    pre: 0 <= fault < len(FAULTS) and 0 <= nv <= 1 and isbyte(x)
    post: _
    """
    kind = FAULTS[fault]
    if kind in ("encoder", "write", "dupflush"):
        return True
    v = mkb(nv, x)
    p = new_path()
    MON["bad"] = 0
    if not REAL:
        E.FakePath.lock_monitor = _monitor
    c = Collection(p, UkvCollectionBackend, readonly=False)
    with c.writing():
        c["a"] = v
    committed = [("a", v)]
    r = Collection(p, UkvCollectionBackend, readonly=False) if first_use else c
    be = r._backend
    if kind == "update_keys":
        def _raise():
            raise Boom("update_keys")
        be.update_keys = _raise
    if kind in ("close", "open"):
        FAULT.arm(kind, 1)
    try:
        with r.reading():
            if r["a"] != v:
                return False
            if kind == "body":
                raise Boom("body")
    except (Boom, InjectedFault):
        pass
    finally:
        FAULT.disarm()
        if "update_keys" in be.__dict__:
            del be.update_keys
    return _check_after(p, r, committed, []) and MON["bad"] == 0


def scn_failed_then_others(kind, nother, first_use, bufsel, nfail):
    """plain scenario (no contract: C02 uses it too): a failing writing session on a long-lived handle, then records through a second handle, then the first handle again"""
    p = new_path()
    a = Collection(p, UkvCollectionBackend, _enc, None, readonly=False, bufsize=(-1 if bufsel == 0 else 150))
    done = []
    if not first_use:
        with a.writing():
            a["a0"] = b"v0"
        done.append(("a0", b"v0"))
    try:
        with a.writing():
            for i in range(nfail):
                if kind == 0:
                    a["K" * 256 + str(i)] = b"big"            # key too long for the record header: the write fails
                elif kind == 1:
                    a["e%d" % i] = b"ok"
                    a["f%d" % i] = b"BOOM"                    # the value encoder fails after a put was queued
                else:
                    a["d%d" % i] = b"one"
                    a["d%d" % i] = b"two"                     # duplicate key: refused when flushed
        return True                                       # the session did not fail: nothing to check here
    except Exception:                                     # (CrossHair's own control-flow exceptions are BaseException and pass through)
        pass
    b = Collection(p, UkvCollectionBackend, readonly=False)
    with b.reading():
        survivors = [(k, b[k]) for k in list(b.keys()) if not any(k == x for x, _ in done)]     # records of the failed session that did reach the file, whole
    for k, v in survivors:
        if not ((kind == 1 and v == b"ok") or (kind == 2 and v == b"one")):
            return False
    done += survivors
    for i in range(nother):
        with b.writing():
            b["o%d" % i] = b"w"
        done.append(("o%d" % i, b"w"))
    with a.reading():
        if not same_elems(list(a.keys()), [k for k, _ in done]):
            return False
        for k, v in done:
            if a[k] != v:
                return False
    with a.writing():
        a["z"] = b"zz"
    done.append(("z", b"zz"))
    c = Collection(p, UkvCollectionBackend, readonly=True)
    with c.reading():
        if not same_elems(list(c.keys()), [k for k, _ in done]):
            return False
    with a.reading():
        if not same_elems(list(a.keys()), [k for k, _ in done]):
            return False
    return lock_state(p) == (0, 0)


def h_failed_then_others(kind: int, nother: int, first_use: bool, bufsel: int, nfail: int) -> bool:
    """
    A failing writing session on a long-lived handle, then 0-3 records written through a second handle, then the first handle again:
    its sessions list exactly the records of completed sessions (its own and the other handle's) and read each of them
    pre: 0 <= kind <= 2 and 0 <= nother <= 3 and 0 <= bufsel <= 1 and 1 <= nfail <= 2
    post: _
    """
    return scn_failed_then_others(kind, nother, first_use, bufsel, nfail)


# ---- another process between two environment calls of a constructor / session begin -------------------------------------------------------
OTHER_SRC = ("import sys\nfrom molli.storage import Collection, UkvCollectionBackend\n"
             "c = Collection(sys.argv[1], UkvCollectionBackend, readonly=False)\n"
             "with c.writing():\n    c._backend.put('b0', b'vb')\nprint('done')\n")


class _RealHooks:
    """real replay: the hooks sit on the real pathlib / fasteners calls of this process; the other process IS another process (started at the k-th
    call; if it cannot get the fcntl lock within 3 s it was not enabled there and is killed)"""
    n, at, fn = 0, -1, None

    @classmethod
    def call(cls):
        if cls.fn is None:
            return
        cls.n += 1
        if cls.n == cls.at:
            f, cls.fn = cls.fn, None
            f()


def _install_real_hooks():
    import fasteners
    if getattr(B, "_verif_hooked", False):
        return
    P = B.Path

    class HookPath(P):
        def is_file(self):
            _RealHooks.call()
            return super().is_file()

        def exists(self):
            _RealHooks.call()
            return super().exists()

        def open(self, *a, **k):
            _RealHooks.call()
            return super().open(*a, **k)

    class HookLock(fasteners.InterProcessReaderWriterLock):
        def acquire_write_lock(self, *a, **k):
            _RealHooks.call()
            return super().acquire_write_lock(*a, **k)

        def acquire_read_lock(self, *a, **k):
            _RealHooks.call()
            return super().acquire_read_lock(*a, **k)
    B.Path = U.Path = C.Path = HookPath
    B.InterProcessReaderWriterLock = HookLock
    B._verif_hooked = True


def h_other_process(k: int, with_session: bool) -> bool:
    """
    a second PROCESS opens the same not-yet-existing library and completes a writing session between two environment calls (file test, open, lock
    acquisition) of this process's constructor (and first session begin), wherever the lock lets it in; afterwards both processes' completed
    sessions are in the file: the k-th call is symbolic
    pre: 1 <= k <= 14
    post: _
    """
    p = new_path()
    if REAL and os.path.exists(p):
        os.remove(p)
    ran = [False]
    if REAL:
        _install_real_hooks()
        import subprocess, sys

        def other():
            try:
                r = subprocess.run([sys.executable, "-c", OTHER_SRC, str(p)], capture_output=True, text=True, timeout=3, env=dict(os.environ))
                ran[0] = r.returncode == 0 and "done" in r.stdout
            except subprocess.TimeoutExpired:
                pass
        _RealHooks.n, _RealHooks.at, _RealHooks.fn = 0, int(k), other
    else:
        def other():
            try:
                cb = Collection(p, UkvCollectionBackend, readonly=False)
                with cb.writing():
                    cb["b0"] = b"vb"
                ran[0] = True
            except (RuntimeError, TimeoutError):
                pass                                  # the lock is held by this process: the other one waits
        E.Preempt.arm(k, other)
    try:
        ca = Collection(p, UkvCollectionBackend, readonly=False)
        if with_session:
            with ca.writing():
                ca["a0"] = b"va"
    finally:
        if REAL:
            _RealHooks.fn = None
        else:
            E.Preempt.off()
    if not ran[0]:
        other()                                       # it gets its turn once this process is out of the way
        if not ran[0]:
            return False
    if not with_session:
        with ca.writing():
            ca["a0"] = b"va"
    r = Collection(p, UkvCollectionBackend, readonly=True)
    with r.reading():
        if not same_elems(list(r.keys()), ["a0", "b0"]) or r["a0"] != b"va" or r["b0"] != b"vb":
            return False                              # a record of a completed session was lost or altered
    with ca.reading():
        if not same_elems(list(ca.keys()), ["a0", "b0"]):
            return False
    return lock_state(p) == (0, 0)


def h_sessions_exclusive(s1: int, s2: int, s3: int) -> bool:
    """
    Session-granularity schedules over two handles: a session that begins while another handle's write session is open
    (or a write session while a read session is open) is refused, never interleaved; sessions that ran see all completed records.
    Each selector: bit0 handle, bit1 write, bit2 'nested inside the previous session' (the previous session is still open).
    pre: 0 <= s1 < 4 and 0 <= s2 < 8 and 0 <= s3 < 8
    pre: SPLIT < 0 or s2 == SPLIT
    post: _
    """
    if REAL:
        return True          # exclusion between lock objects of one process is not observable with fcntl locks; model-level obligation
    p = new_path()
    MON["bad"] = 0
    E.FakePath.lock_monitor = _monitor
    hs = [Collection(p, UkvCollectionBackend, readonly=False), Collection(p, UkvCollectionBackend, readonly=False)]
    ref = []
    n = [0]

    def session(s, inner):
        h = hs[s & 1]
        w = (s >> 1) & 1
        cm = h.writing(timeout=0) if w else h.reading(timeout=0)
        with cm:
            if w:
                key = "k%d" % n[0]
                n[0] += 1
                h[key] = b"v"
                ref.append((key, b"v"))
            else:
                if not same_elems(list(h.keys()), [k for k, _ in ref if True]):
                    raise AssertionError("reader view")
            for f in inner:
                f()

    def nested_attempt(s, outer_s):
        def f():
            ow, iw = (outer_s >> 1) & 1, (s >> 1) & 1
            same = (s & 1) == (outer_s & 1)
            try:
                session(s, [])
                ran = True
            except TimeoutError:
                ran = False
            if same:
                return       # nested sessions on one handle are outside the claim
            if (ow or iw) and ran:
                raise AssertionError("writer not exclusive")
            if not ow and not iw and not ran:
                raise AssertionError("readers must share")
        return f

    try:
        steps = [s1, s2, s3]
        i = 0
        while i < len(steps):
            s = steps[i]
            inner = []
            if i + 1 < len(steps) and (steps[i + 1] >> 2) & 1:
                if (steps[i + 1] & 1) == (s & 1):
                    return True   # nested on the same handle: outside the claim
                inner = [nested_attempt(steps[i + 1], s)]
                i += 1
            session(s, inner)
            i += 1
    except AssertionError:
        return False
    for h in hs:
        with h.reading():
            if not same_elems(list(h.keys()), [k for k, _ in ref]):
                return False
    return lock_state(p) == (0, 0) and MON["bad"] == 0


# ---- lock identity: every spelling of one library path must map to one lock ---------------------------------------
import molli._aux.lock as LK

W = os.getcwd().rstrip("/")          # the model's working directory is the process's, so lexical os.path functions agree with it
SAME = ["data/lib.ukv", W + "/data/lib.ukv", "link/lib.ukv", "data/../data/lib.ukv", "./data/lib.ukv", W + "/link/lib.ukv", "flink.ukv"]
OTHER = ["data/other.ukv", "link/other.ukv", W + "/data/lib.ukv2"]
LINKS = {W + "/link": W + "/data", W + "/flink.ukv": W + "/data/lib.ukv"}


class SymPath:
    """pathlib.Path model with a symlink table: resolve() = absolute, '.'/'..' processed, links followed (cwd = the process's)"""

    def __init__(self, p):
        self.p = p.p if isinstance(p, SymPath) else os.fspath(p)

    def __fspath__(self):
        return self.p

    def resolve(self):
        p = self.p if self.p.startswith("/") else W + "/" + self.p
        out = ""
        for part in p.split("/"):
            if part in ("", "."):
                continue
            if part == "..":
                out = out.rsplit("/", 1)[0]
                continue
            out = out + "/" + part
            hops = 0
            while out in LINKS and hops < 8:
                out = LINKS[out]
                hops += 1
        return SymPath(out or "/")

    def absolute(self):
        return SymPath(self.p if self.p.startswith("/") else W + "/" + self.p)

    def as_posix(self):
        return self.p

    def __str__(self):
        return self.p

    def __truediv__(self, o):
        return SymPath(self.p.rstrip("/") + "/" + str(o))

    def mkdir(self, **k):
        pass

    def __eq__(self, o):
        return isinstance(o, SymPath) and o.p == self.p

    def __hash__(self):
        return hash(self.p)


class _Cfg:
    SHARED_DIR = SymPath("/shared")


def _real_tree():
    """the same layout on a real filesystem (for replay): returns the directory to chdir into"""
    import tempfile
    d = os.path.realpath(tempfile.mkdtemp(prefix="verif_lk_"))
    os.makedirs(d + "/data")
    for f in ("lib.ukv", "other.ukv", "lib.ukv2"):
        open(d + "/data/" + f, "wb").close()
    os.symlink(d + "/data", d + "/link")
    os.symlink(d + "/data/lib.ukv", d + "/flink.ukv")
    return d


def h_lock_identity(s1: int, s2: int, o: int) -> bool:
    """
    rwlock(): two spellings of one library file (relative, absolute, via '..', via a symlinked directory or file) name the same
    lock; a different file names a different lock.  Runs the real rwlock on a path model with a symlink table.
    pre: 0 <= s1 < len(SAME) and 0 <= s2 < len(SAME) and 0 <= o < len(OTHER)
    post: _
    """
    if REAL:
        d = _real_tree()
        cwd = os.getcwd()
        os.chdir(d)
        try:
            fix = lambda x: x.replace(W + "/", d + "/")
            a, b, c = LK.rwlock(fix(SAME[s1])), LK.rwlock(fix(SAME[s2])), LK.rwlock(fix(OTHER[o]))
        finally:
            os.chdir(cwd)
        return str(a) == str(b) and str(a) != str(c)
    saved = (LK.Path, LK.config)
    LK.Path, LK.config = SymPath, _Cfg
    try:
        a, b, c = LK.rwlock(SAME[s1]), LK.rwlock(SAME[s2]), LK.rwlock(OTHER[o])
    finally:
        LK.Path, LK.config = saved
    return str(a) == str(b) and str(a) != str(c)


ENCODED = ["molli._aux.lock.rwlock", "molli.storage.backends.CollectionBackendBase.reading", "molli.storage.backends.CollectionBackendBase.writing",
           "molli.storage.backends.CollectionBackendBase.flush", "molli.storage.backends.CollectionBackendBase.put",
           "molli.storage.backends.UkvCollectionBackend.begin_read", "molli.storage.backends.UkvCollectionBackend.end_read",
           "molli.storage.backends.UkvCollectionBackend.begin_write", "molli.storage.backends.UkvCollectionBackend.end_write",
           "molli.storage.backends.UkvCollectionBackend.update_keys", "molli.storage.ukvfile.UKVFile.open", "molli.storage.ukvfile.UKVFile.close",
           "molli.storage.ukvfile.UKVFile.put", "molli.storage.ukvfile.UKVFile.map_blocks", "molli.storage.collection.Collection.__setitem__"]


def run(rep, tier):
    from engine import xh
    rep.encoded = ENCODED
    rep.models_validated = E.validate_storage_models()
    rep.bounds = {"faults": "one fault per session; step symbolic over {body, value encoder, k-th stream write during flush (k in 1..7), stream close at session end, file open at session begin, duplicate key flushed at exit, update_keys}",
                  "sessions": "reading() and writing(), first use of the handle or reuse, immediate-flush and buffered", "handles": "2 (+1 fresh reader)",
                  "lock identity": "rwlock() on 7 spellings of one file (relative, absolute, '..', symlinked directory, symlinked file) and 3 other files",
                  "schedules": "session granularity, 3 sessions over 2 handles incl. one session attempted while another is open"}
    rep.outside = ["real multi-process schedules with random delays (8..16 processes): not addressed by this technique",
                   "correctness of fasteners' fcntl reader/writer lock across processes (trusted; modelled as bookkeeping)",
                   "threads sharing a handle, nested sessions on one handle (outside the property)"]
    rep.assumptions = ["RWLock model = per-path reader/writer counters, acquire on a busy lock returns False (fasteners' timeout behaviour)",
                       "an injected I/O fault raises OSError from stream.write/close or Path.open"]
    specs = [{"fn": "h_fault_writing", "timeout": 300, "split": f} for f in range(len(FAULTS))]
    specs += [{"fn": "h_fault_reading", "timeout": 300}, {"fn": "h_lock_identity", "timeout": 300}, {"fn": "h_failed_then_others", "timeout": 300}, {"fn": "h_other_process", "timeout": 300}]
    specs += [{"fn": "h_sessions_exclusive", "timeout": 300, "split": s} for s in range(8)]
    xh.run_obligations(rep, "harness.C04", specs)
    xh.known_witness(rep, "harness.C04")
