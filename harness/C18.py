"""C18 — jobmap computes each item once, reuses only valid results, resumes cleanly (XH: the real jobmap body over real Collections on the file
model, a world model for the cache directory and a scripted runner; symbolic job arguments / cached hashes / exit codes decide reuse)."""
import os, sys, types, tempfile, shutil, shlex
import attrs
import molli.pipeline.job as J
from molli.pipeline.job import Job, JobInput, JobOutput
from harness.storage_env import *   # noqa  (REAL, E, Collection, UkvCollectionBackend, new_path)

HAS_REAL = True
SPLIT = int(os.environ.get("XH_SPLIT", "-1"))


def pick(sel, n):
    for i in range(n):
        if sel == i:
            return i
    return 0


# --------------------------------------------------------------------------------------------------------------- world model of the cache dir
class World:
    def __init__(self):
        self.files = {}        # path -> JobInput | JobOutput | "CORRUPT"
        self.attempts = {}     # sub-job key -> number of executions so far
        self.execs = []        # sub-job keys in execution order (this run)
        self.script = {}       # sub-job key -> list of outcomes by attempt (last one repeats)
        self.neg_rc = False    # failing commands exit with 1, or are killed by a signal (-1): decided where a failure happens (symbolic bool)


W = None
OK, FAIL, OMIT, CRASH = 0, 1, 2, 3
OUTCOMES = ["ok", "fail", "omit", "crash"]


class JPath:
    def __init__(self, p):
        self.p = p.p if isinstance(p, JPath) else str(p)

    def __truediv__(self, o):
        o = o.p if isinstance(o, JPath) else str(o)
        return JPath(o) if o.startswith("/") else JPath(self.p.rstrip("/") + "/" + o)

    def __str__(self):
        return self.p

    def __fspath__(self):
        return self.p

    def absolute(self):
        return self if self.p.startswith("/") else JPath("/cwd/" + self.p)

    def mkdir(self, parents=False, exist_ok=False):
        pass

    def is_file(self):
        return self.p in W.files

    def as_posix(self):
        return self.p

    @property
    def stem(self):
        return self.p.rsplit("/", 1)[-1].rsplit(".", 1)[0]


class NullF:
    def __enter__(self):
        return self

    def __exit__(self, *a):
        return False

    def write(self, s):
        pass


class NullLog:
    def __getattr__(self, n):
        return lambda *a, **k: None


class FLogging:
    @staticmethod
    def getLogger(n=None):
        return NullLog()

    @staticmethod
    def FileHandler(f):
        return None


class _T:
    def __init__(self, it):
        self.it = it

    def __iter__(self):
        return iter(self.it)

    def write(self, m):
        pass


def ftqdm(it=None, *a, **k):
    return _T(it)


class Fut:
    def __init__(self, r):
        self.r = r

    def result(self):
        return self.r


class InlineExec:
    def __init__(self, *a, **k):
        pass

    def __enter__(self):
        return self

    def __exit__(self, *a):
        return False

    def submit(self, f, *a):
        return Fut(f(*a))


class Proc:
    def __init__(self, rc):
        self.returncode = rc


def tag(sk, n):
    return f"{sk}@{n}".encode()


def run_stub(ifn, cwd, odir, sdir):
    """contract of `_molli_run <ifn> -o <odir> -s <sdir>` (runner.run_local, analysed on its own under C17): runs the commands of the input
    file and writes <odir>/<stem>.out carrying the hash of that input, the last return code and the requested files that exist; process exit
    code 0 iff all commands succeeded and all requested files exist.  The commands' behaviour is scripted per sub-job and attempt."""
    inp = W.files[str(ifn)]
    sk = JPath(ifn).stem
    n = W.attempts.get(sk, 0) + 1
    W.attempts[sk] = n
    W.execs.append(sk)
    sc = W.script.get(sk, [OK])
    oc = sc[min(n, len(sc)) - 1]
    out_fn = str(JPath(odir) / f"{sk}.out")
    if oc == OK:
        W.files[out_fn] = JobOutput(stdouts={}, stderrs={}, exitcode=0, files={"r": tag(sk, n)}, input_hash=inp.hash)
        return Proc(0)
    if oc == FAIL:      # the failing command leaves a partial result file behind
        W.files[out_fn] = JobOutput(stdouts={}, stderrs={}, exitcode=(-1 if W.neg_rc else 1), files={"r": b"PARTIAL"}, input_hash=inp.hash)
        return Proc(1)
    if oc == OMIT:
        W.files[out_fn] = JobOutput(stdouts={}, stderrs={}, exitcode=0, files={}, input_hash=inp.hash)
        return Proc(1)
    return Proc(-9)     # the runner was killed before it wrote anything


def _load(fn):
    o = W.files.get(str(fn))
    if o is None:
        raise FileNotFoundError(str(fn))
    if isinstance(o, str):
        raise ValueError("corrupt output file")
    return attrs.evolve(o)


def _dump(self, fn):
    W.files[str(fn)] = attrs.evolve(self)


class HashModel:
    """hash model: equality = equality of the hashed content.  Opaque on purpose: jobmap renders hashes into log messages, and repr() / format() of
    a symbolic int is a C boundary at which CrossHair realises the value (after which no condition is ever confirmed)"""

    def __init__(self, jid, commands, x):
        self.c = (jid, commands, x)

    def __eq__(self, o):
        return isinstance(o, HashModel) and self.c[0] == o.c[0] and self.c[1] == o.c[1] and self.c[2] == o.c[2]

    def __ne__(self, o):
        return not self.__eq__(o)

    __hash__ = None

    def __repr__(self):
        return "<hash>"


class JI(JobInput):
    """the real sha3/msgpack hash is used in the real replay"""
    hash = property(lambda self: HashModel(self.jid, tuple(self.commands), self.files["x"]))


_SAVED = {}


def install():
    for n in ("Path", "logging", "tqdm", "ThreadPoolExecutor", "_run_local"):
        _SAVED.setdefault(n, getattr(J, n))
    _SAVED.setdefault("load", JobOutput.__dict__["load"])
    _SAVED.setdefault("dump", JobInput.__dict__["dump"])
    J.Path, J.logging, J.tqdm, J.ThreadPoolExecutor, J._run_local = JPath, FLogging, ftqdm, InlineExec, run_stub
    J.open = lambda *a, **k: NullF()
    JobOutput.load = staticmethod(_load)
    JobInput.dump = _dump


def uninstall():
    for n in ("Path", "logging", "tqdm", "ThreadPoolExecutor", "_run_local"):
        setattr(J, n, _SAVED[n])
    if "open" in vars(J):
        del J.open
    JobOutput.load = _SAVED["load"]
    JobInput.dump = _SAVED["dump"]


# --------------------------------------------------------------------------------------------------------------------------- the job under test
STATE_DIR = None       # real replay: directory of the execution counter files


def _command(sk):
    if not REAL:
        return (f"tool {sk}", None)
    # real shell command: bumps the counter file of this sub-job, records the execution, then behaves as scripted for that attempt
    s = STATE_DIR
    body = (f"n=$(cat {s}/{sk}.n 2>/dev/null || echo 0); n=$((n+1)); echo $n > {s}/{sk}.n; echo {sk} >> {s}/execs; "
            f"oc=$(sed -n \"${{n}}p\" {s}/{sk}.script); [ -z \"$oc\" ] && oc=$(tail -n 1 {s}/{sk}.script); "
            f"case $oc in ok) printf '%s@%s' {sk} $n > r;; fail*) printf PARTIAL > r; exit ${{oc#fail }};; omit) ;; crash) kill -9 $PPID; sleep 5;; esac")
    return (f"sh -c {shlex.quote(body)}", None)


def make_job(tolerant: bool, vec: bool):
    j = Job(return_files=("r",), name="calc")

    @j.prep
    def prep(self, obj, x):
        cls = JobInput if REAL else JI
        return cls(jid=str(obj), commands=[_command(str(obj))], files={"x": str(x) if REAL else x}, return_files=("r",))

    @j.post
    def post(self, out, obj, x):
        return NAMES[str(obj)] + b"|" + out.files["r"]
    if not vec:
        return j
    v = Job.vectorize(j)

    @v.reduce
    def red(self, results, objs, x):
        return b";".join(results)
    return v


NAMES = {k: k.encode() for k in ("a", "b", "a.0", "a.1", "b.0")}      # results are bytes built without str.encode / repr (both are intercepted by CrossHair and fork)
SRC_SINGLE = {b"a:1": "a", b"b:1": "b"}
SRC_VEC = {b"a:1": ["a.0"], b"a:2": ["a.0", "a.1"], b"b:1": ["b.0"]}                # conformer i of item `name` is prepared as sub-job `name.i`


def dec_src_single(b):
    return SRC_SINGLE[bytes(b)]


def dec_src_vec(b):
    return SRC_VEC[bytes(b)]


# ----------------------------------------------------------------------------------------------------------------------------- reference model
class Ref:
    """what the property says, as a 20-line interpreter: dest / cache contents and the executions of each run"""

    def __init__(self, nconf, vec, tolerant, script, fail_rc):
        self.nconf, self.vec, self.tol, self.script, self.fail_rc = nconf, vec, tolerant, script, fail_rc
        self.dest, self.cache, self.attempts = {}, {}, {}

    def subkeys(self, k):
        return [f"{k}.{i}" for i in range(self.nconf[k])] if self.vec else [k]

    def valid(self, c, x, strict):
        return c is not None and c != "CORRUPT" and c[1] == 0 and (not strict or c[0] == x)

    def run(self, x, strict):
        execs = []
        todo = [k for k in self.nconf if k not in self.dest]
        for k in todo:
            for sk in self.subkeys(k):
                if self.valid(self.cache.get(sk), x, strict):
                    continue
                n = self.attempts[sk] = self.attempts.get(sk, 0) + 1
                execs.append(sk)
                sc = self.script.get(sk, [OK])
                oc = sc[min(n, len(sc)) - 1]
                if oc == OK:
                    self.cache[sk] = (x, 0, tag(sk, n))
                elif oc == FAIL:
                    self.cache[sk] = (x, (-1 if self.fail_rc else 1), b"PARTIAL")
                elif oc == OMIT:
                    self.cache[sk] = (x, 0, None)
        for k in todo:
            outs = [self.cache.get(sk) for sk in self.subkeys(k)]
            if not all(self.valid(c, x, strict) for c in outs):
                continue
            if not self.tol and any(c[2] is None for c in outs):
                continue                                     # post-processing raises: no result
            self.dest[k] = b";".join([NAMES[sk] + b"|" + c[2] for sk, c in zip(self.subkeys(k), outs)])
        return sorted(execs)


# --------------------------------------------------------------------------------------------------------------------------------- scenario
CACHE_STATES = ["none", "present", "corrupt"]      # cached output of sub-job a / a.0 before the first run ("present" carries a symbolic hash and exit code)


def scenario(vec, nconf_a, pre_dest, dest_only, cache_a, c_x, c_rc, cache_a1, xs, stricts, oa, oa1, ob, fail_rc, tolerant):
    """runs len(xs) consecutive jobmap calls; after each, executions and destination must equal the reference model's"""
    global W, STATE_DIR
    nconf = {"a": nconf_a if vec else 1, "b": 1}
    script = {}
    ka, ka1, kb = ("a.0", "a.1", "b.0") if vec else ("a", None, "b")
    script[ka] = oa
    if ka1 is not None and nconf_a > 1:
        script[ka1] = oa1
    script[kb] = ob
    ref = Ref(nconf, vec, tolerant, script, fail_rc)
    base = None
    if REAL:
        base = tempfile.mkdtemp(prefix="c18_")
        STATE_DIR = base + "/state"
        os.makedirs(STATE_DIR)
        cache_dir = base + "/cache"
        os.makedirs(cache_dir + "/output")
        p_src, p_dst = base + "/src.ukv", base + "/dst.ukv"
        for sk, sc in script.items():
            with open(f"{STATE_DIR}/{sk}.script", "wt") as f:
                f.write("".join({OK: "ok", FAIL: f"fail {255 if fail_rc else 1}", OMIT: "omit", CRASH: "crash"}[o] + "\n" for o in sc))
    else:
        new_path()
        p_src, p_dst, cache_dir = "src", "dst", "/cache"
        W = World()
        W.script, W.neg_rc = script, fail_rc
    try:
        src = Collection(p_src, UkvCollectionBackend, None, dec_src_vec if vec else dec_src_single, readonly=False, overwrite=True)
        with src.writing():
            for k, n in nconf.items():
                src._backend.put(k, f"{k}:{n}".encode())
        dst = Collection(p_dst, UkvCollectionBackend, None, None, readonly=False, overwrite=True)
        old = b"a|old"
        with dst.writing():
            if pre_dest:
                dst["a"] = old
                ref.dest["a"] = old
            if dest_only:
                dst["zz"] = b"kept"
        job = make_job(tolerant, vec)
        # pre-existing cached outputs
        for sk, st, in ((ka, cache_a), (ka1, cache_a1)):
            if sk is None or sk not in script or st == 0:
                continue
            fn = f"{cache_dir}/output/{sk}.out"
            if st == 2:
                ref.cache[sk] = "CORRUPT"
                if REAL:
                    with open(fn, "wb") as f:
                        f.write(b"\xc1garbage")
                else:
                    W.files[fn] = "CORRUPT"
                continue
            hfile = b"cached"
            c_rc = pick(c_rc + 1, 3) - 1          # concrete from here on: jobmap formats the exit code into an exception message
            ref.cache[sk] = (c_x, c_rc, hfile)
            obj = sk
            if REAL:
                h = job.prepare(obj, c_x).hash if not vec else next(iter(job.prepare([obj], c_x))).hash
                JobOutput(stdouts={}, stderrs={}, exitcode=c_rc, files={} if hfile is None else {"r": hfile}, input_hash=h).dump(fn)
            else:
                W.files[fn] = JobOutput(stdouts={}, stderrs={}, exitcode=c_rc, files={} if hfile is None else {"r": hfile}, input_hash=HashModel(obj, (_command(obj),), c_x))
        if not REAL:
            install()
        try:
            for x, strict in zip(xs, stricts):
                if REAL:
                    open(f"{STATE_DIR}/execs", "wt").close()
                    saved_run = J.MOLLI_RUN
                    J.MOLLI_RUN = f"{sys.executable} -c {shlex.quote('from molli.pipeline.runner import run_local; run_local()')}"
                    try:
                        J.jobmap(job, src, dst, cache_dir=cache_dir, scratch_dir=base + "/scr", args=(x,), strict_hash=strict, log_level="critical")
                    finally:
                        J.MOLLI_RUN = saved_run
                    got = sorted(open(f"{STATE_DIR}/execs").read().split())
                else:
                    W.execs = []
                    J.jobmap(job, src, dst, cache_dir=cache_dir, scratch_dir="/scr", args=(x,), strict_hash=strict)
                    got = sorted(W.execs)
                want = ref.run(x, strict)
                if got != want:
                    return False                               # executed exactly what is missing and not validly cached
                with dst.reading():
                    keys = sorted(dst.keys())
                    want_keys = sorted(list(ref.dest) + (["zz"] if dest_only else []))
                    if keys != want_keys:
                        return False                           # exactly the successful items (+ what was there before)
                    for k in ref.dest:
                        if bytes(dst[k]) != ref.dest[k]:
                            return False                       # the processed result of the right output (fresh vs cached vs old)
                    if dest_only and bytes(dst["zz"]) != b"kept":
                        return False
                with src.reading():
                    if sorted(src.keys()) != ["a", "b"]:
                        return False
                # a run in which post-processing met a missing return file: whether a later run repeats that item is not fixed by the property
                if not tolerant and any(c is not None and c != "CORRUPT" and c[1] == 0 and c[2] is None for c in ref.cache.values()):
                    return True
        finally:
            if not REAL:
                uninstall()
        return True
    finally:
        if base is not None:
            shutil.rmtree(base, ignore_errors=True)


def _oc(sel):
    return pick(sel, 4)


SEQS = [[OK], [FAIL, OK], [FAIL, FAIL, OK], [CRASH, OK], [OMIT], [OK, FAIL], [CRASH, FAIL, OK], [FAIL, CRASH, OK]]
NRUNS = 3 if os.environ.get("XH_THOROUGH") == "1" else 2
QUICK = os.environ.get("XH_THOROUGH") != "1" and os.environ.get("XH_REPLAY") != "1"
S_A, S_2 = (SPLIT // 4, SPLIT % 4) if SPLIT >= 0 else (-1, -1)
ST = int(os.environ.get("XH_C18_ST", "-1"))       # further split of h_single (thorough tier) by strict / lenient hashing and pre-populated destination
CA = int(os.environ.get("XH_C18_CA", "-1"))       # further split of h_vec by the cache state of a.0


def h_single(pre_dest: bool, dest_only: bool, cache_a: int, c_x: int, c_rc: int, x1: int, x2: int, x3: int, strict: bool, sa: int, sb: int, neg_rc: bool) -> bool:
    """
    single (non-vectorised) job over items a, b: pre-populated destination, destination-only key, cached output of a with symbolic argument
    (= hash) and exit code, scripted outcome sequences, job argument changing between runs (symbolic x1, x2, x3), strict or lenient hashing
    pre: 0 <= cache_a < 3 and -1 <= c_rc <= 1 and 0 <= c_x <= 2 and 0 <= x1 <= 2 and 0 <= x2 <= 2 and 0 <= x3 <= 2
    pre: 0 <= sa < len(SEQS) and 0 <= sb < 4
    pre: strict or (c_x == x1 and x1 == x2 and x2 == x3)
    pre: SPLIT < 0 or (sa == S_A and sb == S_2)
    pre: ST < 0 or (strict == (ST % 2 == 1) and pre_dest == (ST // 2 == 1))
    pre: not QUICK or (dest_only != pre_dest and (not pre_dest or (cache_a == 0 and strict)) and c_x <= 1 and x1 <= 1 and x2 <= 1)
    post: _
    """
    xs = [x1, x2, x3][:NRUNS]
    return scenario(False, 1, pre_dest, dest_only, pick(cache_a, 3), c_x, c_rc, 0, xs, [strict] * NRUNS, SEQS[pick(sa, len(SEQS))], [OK], SEQS[pick(sb, 4)], neg_rc, False)


def h_vec(nconf_a: int, pre_dest: bool, cache_a: int, cache_a1: int, c_x: int, c_rc: int, x1: int, x2: int, x3: int, sa: int, sa1: int, sb: int, neg_rc: bool, strict: bool) -> bool:
    """
    vectorised (per-conformer) job: item a with 1-2 conformers, each sub-job with its own cached output / outcome sequence; item b with one
    (a pre-populated destination is covered by h_single: pre_dest is kept in the signature for replay files and fixed to False)
    pre: 1 <= nconf_a <= 2 and 0 <= cache_a < 3 and 0 <= cache_a1 < 3 and -1 <= c_rc <= 1 and 0 <= c_x <= 1 and 0 <= x1 <= 1 and 0 <= x2 <= 1 and 0 <= x3 <= 1
    pre: 0 <= sa < len(SEQS) and 0 <= sa1 < 4 and 0 <= sb < 2
    pre: SPLIT < 0 or (sa == S_A and sa1 == S_2)
    pre: CA < 0 or cache_a == CA
    pre: not pre_dest
    pre: strict or (c_x == x1 and x1 == x2)
    pre: not QUICK or (nconf_a == 2 and cache_a < 2 and cache_a1 < 2 and sb == 0)
    post: _
    """
    xs = [x1, x2, x3][:2]                      # vectorised histories: two runs in both tiers (three runs of the full product take hours)
    return scenario(True, pick(nconf_a - 1, 2) + 1, pre_dest, True, pick(cache_a, 3), c_x, c_rc, pick(cache_a1, 3), xs, [strict] * 2, SEQS[pick(sa, len(SEQS))], SEQS[pick(sa1, 4)], SEQS[pick(sb, 2)], neg_rc, False)


# ------------------------------------------------------------------------------------------------------ the real hash separates different inputs
# field menus (built at import: dicts made under CrossHair's tracer are proxy maps that msgpack refuses)
HF = {"jid": ["a", "b"], "commands": [[("tool a", None)], [("tool a", "n")], [("tool b", None)], [("tool a", None), ("post", None)]],
      "files": [None, {"x": b"0"}, {"x": b"1"}, {"x": "0"}, {"y": b"0"}], "return_files": [None, ("r",), ("r", "s")],
      "envars": [None, {"OMP": "1"}, {"OMP": "2"}, {"OMP": "1", "LIC": "k"}], "timeout": [None, 10.0, 20.0]}
HFN = list(HF)


BASES = [(0, 0, 0, 0, 0, 0), (1, 1, 1, 1, 1, 1), (0, 2, 2, 2, 2, 2), (1, 3, 3, 0, 3, 0), (0, 1, 4, 1, 0, 2), (1, 0, 2, 2, 1, 1)]      # every menu value of every field occurs


def h_hash_fields(field: int, i: int, j: int, b: int) -> bool:
    """
    the real JobInput.hash (msgpack + sha3): two inputs that differ in exactly one field (any field, any two menu values; the other fields at
    common values taken from 6 rows that cover every menu value) have different hashes, equal inputs have equal hashes: 'same hash' means 'same input'
    pre: 0 <= field < 6 and 0 <= i <= 4 and 0 <= j <= 4 and 0 <= b < len(BASES)
    pre: SPLIT < 0 or field == SPLIT
    post: _
    """
    f = pick(field, 6)
    base = BASES[pick(b, len(BASES))]
    n = len(HF[HFN[f]])
    i, j = pick(i, 5), pick(j, 5)
    if i >= n or j >= n:
        return True
    kw1 = {name: HF[name][base[k]] for k, name in enumerate(HFN)}
    kw2 = dict(kw1)
    kw1[HFN[f]] = HF[HFN[f]][i]
    kw2[HFN[f]] = HF[HFN[f]][j]
    from crosshair.tracers import NoTracing
    with NoTracing():                         # msgpack / sha3 are C code and the inputs are concrete here: run them outside the tracer
        h1, h2 = JobInput(**kw1).hash, JobInput(**kw2).hash
        same = h1 == h2
    return same == (i == j)


def validate_models():
    """the hash model must agree with the real sha3/msgpack hash on equality: same (jid, commands, x) <=> same hash, for the job shapes used here;
    and a dumped/loaded JobOutput keeps hash, exit code and files"""
    k = 0
    d = tempfile.mkdtemp(prefix="c18v_")
    try:
        seen = {}
        for jid in ("a", "b", "a.0", "a.1"):
            for x in (0, 1, 2):
                ji = JobInput(jid=jid, commands=[(f"tool {jid}", None)], files={"x": x}, return_files=("r",))
                m = JI(jid=jid, commands=[(f"tool {jid}", None)], files={"x": x}, return_files=("r",))
                seen[ji.hash] = m.hash
                ji.dump(f"{d}/i")
                assert JobInput.load(f"{d}/i").hash == ji.hash
                o = JobOutput(stdouts={}, stderrs={}, exitcode=x - 1, files={"r": b"v"}, input_hash=ji.hash)
                o.dump(f"{d}/o")
                o2 = JobOutput.load(f"{d}/o")
                assert (o2.input_hash, o2.exitcode, o2.files) == (ji.hash, x - 1, {"r": b"v"})
                k += 2
        ms = list(seen.values())
        assert len(seen) == 12 and all((ms[i] == ms[j]) == (i == j) for i in range(12) for j in range(12)), "hash model and real hash must both separate all 12 inputs"
    finally:
        shutil.rmtree(d, ignore_errors=True)
    return k


ENCODED = ["molli.pipeline.job.jobmap", "molli.pipeline.job.JobInput", "molli.pipeline.job.Job._prepare", "molli.pipeline.job.Job._prepare_iter", "molli.pipeline.job.Job._process", "molli.pipeline.job.Job._process_iter",
           "molli.pipeline.job.Job.vectorize", "molli.storage.collection.Collection.keys", "molli.storage.collection.Collection.__getitem__", "molli.storage.collection.Collection.__setitem__",
           "molli.storage.backends.CollectionBackendBase.reading", "molli.storage.backends.CollectionBackendBase.writing"]


def run(rep, tier):
    from engine import xh
    rep.encoded = ENCODED
    q = tier == "quick"
    rep.models_validated += validate_models() + E.validate_storage_models()
    rep.bounds = {"items": "source {a, b}; destination optionally pre-populated with a and with a destination-only key",
                  "runs": f"{2 if q else 3} consecutive jobmap calls (vectorised jobs: 2), job argument of each run a symbolic int (equal or different between runs and to the cached output's)",
                  "cache": "sub-job a / a.0 (and a.1): none, present (symbolic argument = hash, symbolic exit code in [-1,1], with or without the return file), corrupt file",
                  "outcomes": "per sub-job a sequence over attempts from {ok, fail with symbolic non-zero code leaving a partial file, omit the return file, runner killed before writing}: " + repr([[OUTCOMES[o] for o in s] for s in SEQS]),
                  "hash": "the real JobInput.hash on pairs of inputs differing in exactly one of the six fields (menus of 2-5 values per field, other fields at every menu value) [selector-bound]",
                  "jobs": "single and vectorised (1-2 conformers), strict and (where all hashes agree) lenient hashing; post-processing needs the return file"}
    rep.outside = ["real _molli_run processes, threads, the real cache directory in the symbolic runs (world model; every counterexample is replayed with real processes, files, msgpack and sha3)",
                   "jobmap_sge, worker, Job.__call__", "whether an item whose run left out a return file (command exit 0) is executed again by a later run (not fixed by the property; history is cut there)",
                   "strict_hash=False with differing hashes (explicit opt-out of the hash check)", "more than 2 items, more than 2 conformers, more than 3 runs"]
    rep.assumptions = ["_run_local = contract of runner.run_local (established by C17's h_run obligations, a subset of which is discharged again in this check): output file carries the input's hash, last return code and existing requested files; nothing is written when the runner is killed",
                       "JobInput.hash modelled as the tuple of its content (validated: separates the same inputs as sha3/msgpack)", "ThreadPoolExecutor runs inline; logging / tqdm do nothing",
                       "Collections are the real Collection/UkvCollectionBackend/UKVFile on the C02 file model"]
    env = {} if q else {"XH_THOROUGH": "1"}
    to = 900 if q else 3000
    # split = 4 * (outcome sequence of a / a.0) + (outcome sequence of b / a.1); the quick tier pairs each sequence of the first with [ok] or [fail, ok] for the second
    specs = [{"fn": "h_single", "timeout": to, "split": 4 * s + t, "env": dict(env, **({} if st < 0 else {"XH_C18_ST": str(st)})), "tag": "" if st < 0 else f"/st{st}"}
             for s in range(len(SEQS)) for t in ([(s + 1) % 2] if q else range(4)) for st in ([-1] if q else range(4))]
    specs += [{"fn": "h_vec", "timeout": to, "split": 4 * s + t, "env": dict(env, XH_C18_CA=str(ca)), "tag": f"/cache{ca}"} for s in range(len(SEQS)) for t in ([(s + 1) % 2] if q else range(4)) for ca in range(2 if q else 3)]
    specs.sort(key=lambda sp: sp["fn"] != "h_vec")            # long ones first
    specs += [{"fn": "h_hash_fields", "timeout": 600, "split": f} for f in range(6)]
    xh.run_obligations(rep, "harness.C18", specs)
    # assume / guarantee: the scripted runner above is the contract of runner.run_local.  That contract is what makes an output with exit code 0 mean
    # "every command succeeded", so the obligations that establish it for 2- and 3-command jobs (C17's h_run on its process / filesystem model)
    # are discharged here as well: a change of run_local that breaks the contract breaks C18 through jobmap's cache and finalisation tests.
    cspecs = [{"fn": "h_run", "timeout": 900 if q else 3000, "split": 8 * n + r, "env": {"XH_QUICK": "1"} if q else {}, "tag": "/run_local-contract"} for n in (2, 3) for r in range(min(8, 2 ** n)) if q is False or r in (1, 2, 5)]
    xh.run_obligations(rep, "harness.C17", cspecs)
