"""C10 — damaged or truncated input is rejected, never returned as a partial molecule (XH, [selector-bound] in the damage position)."""
import os, io, warnings
warnings.filterwarnings("ignore")
import numpy as np
from molli.chem import Atom, Molecule, Structure, CartesianGeometry, ConformerEnsemble, BondType

SPLIT = int(os.environ.get("XH_SPLIT", "-1"))
NSPLIT = 16


def _mk():
    a = Molecule([Atom("C", label="C1"), Atom("H", label="H1")], name="first", coords=[[0.0, 0.0, 0.0], [1.09, 0.0, 0.0]], atomic_charges=[-0.1, 0.1])
    a.connect(0, 1)
    b = Molecule([Atom("O", label="O1"), Atom("H", label="H2"), Atom("H", label="H3")], name="second",
                 coords=[[0.0, 0.0, 0.0], [0.96, 0.0, 0.0], [-0.24, 0.93, 0.0]], atomic_charges=[-0.8, 0.4, 0.4])
    b.connect(0, 1)
    b.connect(0, 2, btype=BondType.Aromatic)          # written as the two-letter token 'ar': a cut between the letters leaves 'a', which is no bond type
    return a, b


A, B = _mk()
MOL2 = A.dumps_mol2() + B.dumps_mol2()
XYZ = A.dumps_xyz() + B.dumps_xyz()
# the same two molecules with record types molli does not interpret (skipped blocks) before ATOM, between ATOM and BOND, and after BOND
_a, _b = A.dumps_mol2(), B.dumps_mol2()
MOL2X = (_a.replace("@<TRIPOS>ATOM", "@<TRIPOS>COMMENT\nmade by hand\n@<TRIPOS>ATOM") +
         _b.replace("@<TRIPOS>BOND", "@<TRIPOS>SUBSTRUCTURE\n     1 UNL1        1 GROUP\n@<TRIPOS>BOND") + "@<TRIPOS>CRYSIN\n1.0 1.0 1.0 90 90 90 1 1\n")
TEXTS = {"mol2": MOL2, "xyz": XYZ, "mol2x": MOL2X}
FMTS = ["mol2", "xyz", "mol2x"]


class BudgetExceeded(Exception):
    pass


class RStream(io.StringIO):
    """StringIO with a step budget: a reader that does not terminate is reported, not waited for"""

    def __init__(self, text, budget=2000):
        super().__init__(text)
        self.budget = budget

    def __next__(self):
        self.budget -= 1
        if self.budget < 0:
            raise BudgetExceeded("reader did not terminate within the line budget")
        return super().__next__()


def parse(fmt, text):
    s = RStream(text)
    if fmt.startswith("mol2"):
        return list(Molecule.yield_from_mol2(s))
    return list(Molecule.yield_from_xyz(s))


def sig(m, fmt):
    """content of a molecule as far as the format carries it"""
    d = {"n": m.n_atoms, "els": [int(a.element) for a in m.atoms], "xyz": np.round(np.asarray(m.coords, dtype=float), 6).tolist()}
    if fmt.startswith("mol2"):
        d.update(name=m.name, labels=[a.label for a in m.atoms], bonds=[(m.atoms.index(b.a1), m.atoms.index(b.a2), int(b.btype)) for b in m.bonds],
                 q=np.round(np.asarray(m.atomic_charges, dtype=float), 3).tolist())
    return d


REF = {f: [sig(m, f) for m in parse(f, TEXTS[f])] for f in TEXTS}
HEADER_COUNTS = {"mol2": [(2, 1), (3, 2)], "xyz": [(2, 0), (3, 0)], "mol2x": [(2, 1), (3, 2)]}


def judge(fmt, text, content=True):
    """True iff the readers reject `text` or return complete molecules equal to the corresponding undamaged ones"""
    try:
        res = parse(fmt, text)
    except BudgetExceeded:
        return False
    except Exception:
        return True
    if len(res) > len(REF[fmt]):
        return False
    for k, m in enumerate(res):
        na, nb = HEADER_COUNTS[fmt][k]
        if m.n_atoms != na or (fmt.startswith("mol2") and m.n_bonds != nb):
            return False                      # a molecule with fewer/more atoms or bonds than its own header declares
        if content and sig(m, fmt) != REF[fmt][k]:
            return False
    return True


def last_token_span(text):
    """offsets cutting inside the last numeric token of the final record: the result is a syntactically complete file
    that no reader can tell from an undamaged one (only the count clause is asserted there)"""
    body = text.rstrip("\n")
    start = max(body.rfind(" "), body.rfind("\n")) + 1
    return start, len(text)


def pick(sel, n):
    for i in range(n):
        if sel == i:
            return i
    return None


def h_truncate(fmt_sel: int, cut: int) -> bool:
    """
    every truncation point (all byte offsets) of the generated 2-molecule mol2 and 2-frame xyz text
    pre: 0 <= fmt_sel <= 2 and 0 <= cut <= 900
    pre: SPLIT < 0 or cut % NSPLIT == SPLIT
    post: _
    """
    fmt = FMTS[pick(fmt_sel, 3)]
    text = TEXTS[fmt]
    c = pick(cut, len(text) + 1)
    if c is None:
        return True
    lo, hi = last_token_span(text)
    exempt = False
    if lo < c < hi:
        # a cut inside the last token leaves a file no reader can tell from an undamaged one only if what is left of the token is still a valid value
        # of that field (a shorter number, another bond type); 'a' left of 'ar' is not, and such a file has to be rejected
        left = text[lo:c]
        if fmt == "mol2":
            exempt = left in ("1", "2", "3", "am", "ar", "du", "un", "nc")
        elif fmt == "xyz":
            try:
                float(left)
                exempt = True
            except ValueError:
                exempt = False
        else:
            exempt = True                                      # the last record of this text belongs to a block molli skips
    return judge(fmt, text[:c], content=not exempt)


def h_line_damage(fmt_sel: int, line: int, kind: int) -> bool:
    """
    single line deleted / duplicated
    pre: 0 <= fmt_sel <= 2 and 0 <= line <= 50 and 0 <= kind <= 1
    pre: SPLIT < 0 or line % NSPLIT == SPLIT
    post: _
    """
    fmt = FMTS[pick(fmt_sel, 3)]
    lines = TEXTS[fmt].splitlines(keepends=True)
    i = pick(line, len(lines))
    k = pick(kind, 3)
    if i is None:
        return True
    if k == 0:
        new = lines[:i] + lines[i + 1:]
    elif k == 1:
        new = lines[:i + 1] + [lines[i]] + lines[i + 1:]
    else:
        if i + 1 >= len(lines):
            return True
        new = lines[:i] + [lines[i + 1], lines[i]] + lines[i + 2:]
    text = "".join(new)
    if text == TEXTS[fmt]:
        return True
    # a deleted / duplicated comment, blank or free-text line (name, comment) leaves a well-formed file with the same molecules:
    # the oracle accepts any outcome that is an exception or complete molecules with unchanged numeric content
    return judge_relaxed(fmt, text)


def judge_relaxed(fmt, text):
    """as judge(), but free-text fields (name) may differ: deleting the name line shifts nothing else only if the reader rejects the file"""
    try:
        res = parse(fmt, text)
    except BudgetExceeded:
        return False
    except Exception:
        return True
    if len(res) > len(REF[fmt]) + 1:
        return False
    for m in res:
        s = sig(m, fmt)
        ok = False
        for k, r in enumerate(REF[fmt]):
            if all(s[key] == r[key] for key in s if key != "name"):
                ok = True
        if not ok:
            return False
    return True


def h_token_damage(fmt_sel: int, line: int, tok: int, kind: int) -> bool:
    """
    one token corrupted: an integer field +1 / -1, a numeric field replaced by 'x', a token dropped
    pre: 0 <= fmt_sel <= 2 and 0 <= line <= 50 and 0 <= tok <= 9 and 0 <= kind <= 3
    pre: SPLIT < 0 or line % NSPLIT == SPLIT
    post: _
    """
    fmt = FMTS[pick(fmt_sel, 3)]
    lines = TEXTS[fmt].splitlines(keepends=True)
    i, t, k = pick(line, len(lines)), pick(tok, 10), pick(kind, 4)
    if i is None:
        return True
    toks = lines[i].split()
    if t >= len(toks):
        return True
    old = toks[t]
    if k in (0, 1):
        try:
            v = int(old)
        except ValueError:
            return True
        new = str(v + (1 if k == 0 else -1))
    elif k == 2:
        try:
            float(old)
        except ValueError:
            return True
        new = "x"
    else:
        new = ""
    toks[t] = new
    lines[i] = " ".join(x for x in toks if x != "") + "\n"
    text = "".join(lines)
    return judge_counts_and_refs(fmt, text) and judge_record(fmt, text, i)


def _line_map(fmt):
    """line index -> (molecule, section, record index) of the generated text"""
    out, mol, sec, rec = {}, -1, None, 0
    lines = TEXTS[fmt].splitlines()
    if fmt.startswith("mol2"):
        for i, l in enumerate(lines):
            if l.startswith("@<TRIPOS>"):
                sec, rec = l[9:], 0
                if sec == "MOLECULE":
                    mol += 1
                continue
            if sec in ("ATOM", "BOND") and l.strip():
                out[i] = (mol, sec, rec)
                rec += 1
            elif sec == "MOLECULE":
                out[i] = (mol, "HEAD", rec)
                rec += 1
    else:
        i = 0
        while i < len(lines):
            n = int(lines[i].split()[0])
            mol += 1
            out[i], out[i + 1] = (mol, "HEAD", 0), (mol, "HEAD", 1)
            for r in range(n):
                out[i + 2 + r] = (mol, "ATOM", r)
            i += 2 + n
    return out


LINE_MAP = {f: _line_map(f) for f in TEXTS}


def judge_record(fmt, text, line):
    """token corruption in one record: besides the count clause, everything the damaged record does not describe has the content of the undamaged file:
    the other molecules, and in the damaged molecule every atom (element, label, coordinates, charge) and every bond other than the damaged record"""
    where = LINE_MAP[fmt].get(line)
    if where is None or where[1] == "HEAD":
        return True
    k, sec, r = where
    try:
        res = parse(fmt, text)
    except BudgetExceeded:
        return False
    except Exception:
        return True
    for kk, m in enumerate(res[:len(REF[fmt])]):
        got, ref = sig(m, fmt), REF[fmt][kk]
        if kk != k:
            if got != ref:
                return False
            continue
        if got["n"] != ref["n"]:
            return False
        for i in range(ref["n"]):
            if sec == "ATOM" and i == r:
                continue
            if got["els"][i] != ref["els"][i] or got["xyz"][i] != ref["xyz"][i]:
                return False
            if fmt.startswith("mol2") and (got["labels"][i] != ref["labels"][i] or got["q"][i] != ref["q"][i]):
                return False
        if fmt.startswith("mol2"):
            if got["name"] != ref["name"] or len(got["bonds"]) != len(ref["bonds"]):
                return False
            for j in range(len(ref["bonds"])):
                if not (sec == "BOND" and j == r) and got["bonds"][j] != ref["bonds"][j]:
                    return False
    return True


def judge_counts_and_refs(fmt, text):
    """token corruption: an exception, or molecules each of which is complete w.r.t. the header it was read under and whose
    untouched fields are plausible; a changed index / charge / serial number inside a still well-formed record cannot be detected by any
    reader, so content is compared only for atom and bond *counts* against what each molecule's own header declares"""
    try:
        s = RStream(text)
        if fmt.startswith("mol2"):
            from molli.parsing.mol2 import read_mol2
            blocks = list(read_mol2(RStream(text)))
            res = list(Molecule.yield_from_mol2(s))
            for b, m in zip(blocks, res):
                if m.n_atoms != b.header.n_atoms or (b.header.n_bonds is not None and m.n_bonds != b.header.n_bonds):
                    return False
                if len(b.atoms or []) != b.header.n_atoms or len(b.bonds or []) != (b.header.n_bonds or 0):
                    return False
        else:
            from molli.parsing.xyz import read_xyz
            blocks = list(read_xyz(RStream(text)))
            res = list(Molecule.yield_from_xyz(s))
            for b, m in zip(blocks, res):
                if m.n_atoms != b.n_atoms or len(b.atoms) != b.n_atoms:
                    return False
    except BudgetExceeded:
        return False
    except Exception:
        return True
    return len(res) <= len(REF[fmt]) + 1


ENCODED = ["molli.parsing.mol2.read_mol2", "molli.parsing.xyz.read_xyz", "molli.parsing._reader.LineReader.__next__", "molli.parsing._reader.LineReader.put_back",
           "molli.parsing._reader.LineReader.next_noexcept", "molli.chem.structure.Structure.yield_from_mol2", "molli.chem.geometry.CartesianGeometry.yield_from_xyz"]


def run(rep, tier):
    from engine import xh
    rep.encoded = ENCODED
    rep.bounds = {"texts": f"generated 2-molecule mol2 ({len(MOL2)} bytes, different atom/bond tables) and 2-frame xyz ({len(XYZ)} bytes)",
                  "damage": "single damage: truncation at every byte offset; every line deleted / duplicated; every token of every line: integer +-1, numeric -> 'x', dropped"}
    rep.outside = ["cuts inside the last numeric token of the final record (undetectable for any reader): only the count clause is asserted there",
                   "multiple simultaneous damages", "bundled files (the generated texts have the same record structure)", "[selector-bound]: slicing a concrete text needs a concrete offset, so the solver enumerates positions"]
    rep.assumptions = ["a line budget on the stream turns non-termination into a failure"]
    q = tier == "quick"
    specs = [{"fn": "h_truncate", "timeout": 900, "split": c} for c in range(16)]
    specs += [{"fn": "h_line_damage", "timeout": 900, "split": c} for c in range(0, 16, 2 if q else 1)] if not q else [{"fn": "h_line_damage", "timeout": 900, "split": c} for c in range(16)]
    specs += [{"fn": "h_token_damage", "timeout": 900, "split": c} for c in range(16)]
    xh.run_obligations(rep, "harness.C10", specs)
    xh.known_witness(rep, "harness.C10")
