"""One CrossHair obligation (or one plain-python replay) in its own process.  Prints one JSON line prefixed with @@RESULT."""
import sys, os, json, time, importlib, importlib.util, tempfile, shutil, re, traceback, collections
ROOT = os.path.dirname(os.path.dirname(os.path.abspath(__file__)))
sys.path.insert(0, ROOT)
os.environ.setdefault("MOLLI_HOME", tempfile.mkdtemp(prefix="molli_home_"))
import warnings
warnings.filterwarnings("ignore")


def emit(d):
    print("@@RESULT " + json.dumps(d, default=repr), flush=True)


def load_twin(modname):
    src_mod = importlib.import_module(modname)
    src = open(src_mod.__file__).read()
    d = tempfile.mkdtemp(prefix="xh_twin_")
    name = modname.split(".")[-1] + "__twin"
    p = os.path.join(d, name + ".py")
    open(p, "w").write(re.sub(r"^(\s*)post: _\s*$", r"\1post: not _", src, flags=re.M))
    spec = importlib.util.spec_from_file_location(name, p)
    m = importlib.util.module_from_spec(spec)
    sys.modules[name] = m
    spec.loader.exec_module(m)
    return m, d


def analyze(fn, timeout, ppt):
    from crosshair.core_and_libs import analyze_function, run_checkables, AnalysisKind
    from crosshair.options import AnalysisOptionSet
    stats = collections.Counter()
    opts = AnalysisOptionSet(analysis_kind=[AnalysisKind.PEP316], per_condition_timeout=timeout, per_path_timeout=ppt,
                             report_all=True, max_uninteresting_iterations=10 ** 9, stats=stats)
    t = time.time()
    msgs = run_checkables(analyze_function(fn, opts))
    return [{"state": m.state.name, "message": m.message, "line": m.line, "tb": (m.traceback or "")[-1500:]} for m in msgs], stats.get("num_paths", 0), time.time() - t


def main():
    mode = sys.argv[1]
    if mode == "check":
        modname, fname, timeout, ppt = sys.argv[2], sys.argv[3], float(sys.argv[4]), float(sys.argv[5])
        mod = importlib.import_module(modname)
        msgs, paths, dt = analyze(getattr(mod, fname), timeout, ppt)
        res = {"fn": fname, "split": os.environ.get("XH_SPLIT"), "messages": msgs, "paths": paths, "s": round(dt, 2), "twin": "skipped"}
        if msgs and all(m["state"] == "CONFIRMED" for m in msgs):
            tw, d = load_twin(modname)
            try:
                tm, tp, tdt = analyze(getattr(tw, fname), min(timeout, 60), ppt)
                res["twin"] = "refuted" if any(m["state"] == "POST_FAIL" for m in tm) else "not-refuted:" + ",".join(m["state"] for m in tm)
                res["twin_s"] = round(tdt, 2)
            finally:
                shutil.rmtree(d, ignore_errors=True)
        emit(res)
    elif mode == "replay":
        modname, call = sys.argv[2], sys.argv[3]
        mod = importlib.import_module(modname)
        try:
            r = eval(call, vars(mod))
            emit({"call": call, "returned": repr(r), "ok": r is True or (r is not False and bool(r))})
        except Exception as e:
            emit({"call": call, "raised": f"{type(e).__name__}: {e}", "ok": False, "tb": traceback.format_exc()[-1500:]})


if __name__ == "__main__":
    main()
