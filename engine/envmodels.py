"""Pure-Python environment models (the trusted base of the XH harnesses).

Each model keeps CrossHair's symbolic values symbolic where the C implementation would realise them.
validate_*() functions compare every model with the real implementation on concrete data; harnesses call
them on every run and report the count as traces_validated_against_impl.
"""
from __future__ import annotations
import re
from contextlib import contextmanager


class StructError(Exception):
    pass


class PyStruct:
    """struct.Struct for big-endian formats made of `s B H I x` with counts (format read from molli at run time)"""
    W = {"B": 1, "H": 2, "I": 4}

    def __init__(self, fmt):
        if isinstance(fmt, bytes):
            fmt = fmt.decode()
        assert fmt[0] == ">", fmt
        self.format = fmt
        self.fields = []
        for m in re.finditer(r"(\d*)([sBHIx])", fmt[1:]):
            n = int(m.group(1) or 1)
            k = m.group(2)
            if k in "sx":
                self.fields.append((k, n))
            else:
                self.fields.extend([(k, 1)] * n)
        assert "".join((str(n) if (k in "sx" and n != 1) else "") + k for k, n in self._grouped()) is not None
        self.size = sum(n if k in "sx" else self.W[k] for k, n in self.fields)

    def _grouped(self):
        return self.fields

    def pack(self, *args):
        out = b""
        args = list(args)
        for k, n in self.fields:
            if k == "x":
                out += b"\0" * n
            elif k == "s":
                v = args.pop(0)
                out += (v + b"\0" * n)[:n]
            else:
                v = args.pop(0)
                if not (0 <= v < 256 ** self.W[k]):
                    raise StructError("argument out of range")
                out += v.to_bytes(self.W[k], "big")
        if args:
            raise StructError("too many arguments")
        return out

    def unpack(self, buf):
        if len(buf) != self.size:
            raise StructError("unpack requires a buffer of %d bytes" % self.size)
        res = []
        p = 0
        for k, n in self.fields:
            if k == "x":
                p += n
            elif k == "s":
                res.append(buf[p:p + n])
                p += n
            else:
                w = self.W[k]
                res.append(int.from_bytes(buf[p:p + w], "big"))
                p += w
        return tuple(res)


class FS:
    """in-memory filesystem: name -> bytes, plus the ordered list of writes (name, offset, data) for crash images"""

    def __init__(self):
        self.files = {}
        self.writes = []
        self.opens = []       # (name, mode) in order
        self.open_streams = []


class MemStream:
    def __init__(self, fs, name, mode):
        self.fs, self.name, self.mode = fs, name, mode
        self.pos = 0
        self.closed = False
        fs.open_streams.append(self)

    @property
    def data(self):
        return self.fs.files[self.name]

    def writable(self):
        if self.closed:
            raise ValueError("I/O operation on closed file")
        return self.mode != "rb"

    def seek(self, off, whence=0):
        if self.closed:
            raise ValueError("I/O operation on closed file")
        if whence == 0:
            new = off
        elif whence == 1:
            new = self.pos + off
        else:
            new = len(self.data) + off
        if new < 0:
            raise OSError("Invalid argument")
        self.pos = new
        return self.pos

    def tell(self):
        if self.closed:
            raise ValueError("I/O operation on closed file")
        return self.pos

    def read(self, n=-1):
        if self.closed:
            raise ValueError("I/O operation on closed file")
        d = self.data
        if n is None or n < 0:
            n = max(0, len(d) - self.pos)
        r = d[self.pos:self.pos + n]
        self.pos += len(r)
        return r

    def write(self, b):
        if self.closed:
            raise ValueError("I/O operation on closed file")
        if self.mode == "rb":
            raise OSError("not writable")
        d = self.data
        if len(b) == 0:
            return 0
        if self.pos > len(d):
            d = d + b"\0" * (self.pos - len(d))
        self.fs.files[self.name] = d[:self.pos] + b + d[self.pos + len(b):]
        self.fs.writes.append((self.name, self.pos, b))
        self.pos += len(b)
        return len(b)

    def truncate(self, n=None):
        if self.closed:
            raise ValueError("I/O operation on closed file")
        n = self.pos if n is None else n
        d = self.data
        self.fs.files[self.name] = d[:n] if n <= len(d) else d + b"\0" * (n - len(d))
        self.fs.writes.append((self.name, n, None))   # None = truncate marker
        return n

    def flush(self):
        pass

    def close(self):
        self.closed = True

    def __enter__(self):
        return self

    def __exit__(self, *a):
        self.close()


class Preempt:
    """adversarial scheduler at environment calls: before the k-th call into the modelled environment (file test / open / lock acquisition) made since
    arm(), another process's complete action runs (once).  Whether that action can run is up to the lock model: a process that finds the lock busy waits."""
    at, n, fn, busy = -1, 0, None, False

    @classmethod
    def arm(cls, at, fn):
        cls.at, cls.n, cls.fn, cls.busy = at, 0, fn, False

    @classmethod
    def off(cls):
        cls.at, cls.fn = -1, None

    @classmethod
    def call(cls):
        if cls.fn is None or cls.busy:
            return
        cls.n += 1
        if cls.n == cls.at:
            f, cls.fn, cls.busy = cls.fn, None, True
            try:
                f()
            finally:
                cls.busy = False


class FakePath:
    fs: FS = None
    lock_monitor = None     # callable(path, mode) invoked on every open, for C04's "append only under the write lock"

    def __init__(self, p):
        self.p = p.p if isinstance(p, FakePath) else str(p)

    def __fspath__(self):
        return self.p

    def __str__(self):
        return self.p

    def __repr__(self):
        return f"FakePath({self.p!r})"

    def __eq__(self, o):
        return isinstance(o, FakePath) and o.p == self.p

    def __hash__(self):
        return hash(self.p)

    def is_file(self):
        Preempt.call()
        return self.p in self.fs.files

    def exists(self):
        Preempt.call()
        return self.p in self.fs.files

    def as_posix(self):
        return self.p

    def resolve(self):
        return self

    def open(self, mode="r"):
        Preempt.call()
        if FakePath.lock_monitor is not None:
            FakePath.lock_monitor(self.p, mode)
        self.fs.opens.append((self.p, mode))
        if mode in ("rb", "r+b"):
            if self.p not in self.fs.files:
                raise FileNotFoundError(self.p)
        elif mode == "x+b":
            if self.p in self.fs.files:
                raise FileExistsError(self.p)
            self.fs.files[self.p] = b""
        elif mode == "w+b":
            self.fs.files[self.p] = b""
        else:
            raise ValueError(mode)
        return MemStream(self.fs, self.p, mode)


class RWLock:
    """bookkeeping model of fasteners.InterProcessReaderWriterLock (per-process object, per-path shared state).
    Exclusion *between* processes (fcntl) is trusted, not modelled: acquire_* on a busy lock returns False
    (what fasteners does on timeout)."""
    registry = {}

    def __init__(self, key):
        self.key = str(key)
        self.st = RWLock.registry.setdefault(self.key, {"r": 0, "w": 0})
        self.mine = {"r": 0, "w": 0}

    def acquire_read_lock(self, timeout=None):
        Preempt.call()
        if self.st["w"]:
            return False
        self.st["r"] += 1
        self.mine["r"] += 1
        return True

    def acquire_write_lock(self, timeout=None):
        Preempt.call()
        if self.st["w"] or self.st["r"]:
            return False
        self.st["w"] = 1
        self.mine["w"] = 1
        return True

    def release_read_lock(self):
        if self.mine["r"] <= 0:
            raise RuntimeError("release of an unheld read lock")
        self.st["r"] -= 1
        self.mine["r"] -= 1

    def release_write_lock(self):
        if self.mine["w"] != 1:
            raise RuntimeError("release of an unheld write lock")
        self.st["w"] = 0
        self.mine["w"] = 0

    @contextmanager
    def write_lock(self):
        if not self.acquire_write_lock():
            raise RuntimeError("write lock busy")
        try:
            yield
        finally:
            self.release_write_lock()

    @contextmanager
    def read_lock(self):
        if not self.acquire_read_lock():
            raise RuntimeError("read lock busy")
        try:
            yield
        finally:
            self.release_read_lock()


class AssocDict:
    """insertion-ordered association list standing for the dict used as table of contents; lookups fork on == """

    def __init__(self, *a):
        self.k = []
        self.v = []
        if a:
            for kk, vv in (a[0].items() if hasattr(a[0], "items") else a[0]):
                self[kk] = vv

    def __contains__(self, key):
        for x in self.k:
            if x == key:
                return True
        return False

    def __getitem__(self, key):
        for i, x in enumerate(self.k):
            if x == key:
                return self.v[i]
        raise KeyError(key)

    def get(self, key, default=None):
        for i, x in enumerate(self.k):
            if x == key:
                return self.v[i]
        return default

    def __setitem__(self, key, val):
        for i, x in enumerate(self.k):
            if x == key:
                self.v[i] = val
                return
        self.k.append(key)
        self.v.append(val)

    def __delitem__(self, key):
        for i, x in enumerate(self.k):
            if x == key:
                del self.k[i], self.v[i]
                return
        raise KeyError(key)

    def pop(self, key, *d):
        for i, x in enumerate(self.k):
            if x == key:
                v = self.v[i]
                del self.k[i], self.v[i]
                return v
        if d:
            return d[0]
        raise KeyError(key)

    def keys(self):
        return list(self.k)

    def values(self):
        return list(self.v)

    def items(self):
        return list(zip(self.k, self.v))

    def __len__(self):
        return len(self.k)

    def __iter__(self):
        return iter(list(self.k))

    def copy(self):
        n = AssocDict()
        n.k = list(self.k)
        n.v = list(self.v)
        return n


class AssocSet:
    """set model for symbolic members (membership by ==)"""

    def __init__(self, it=()):
        self.k = []
        for x in it:
            self.add(x)

    def add(self, x):
        for y in self.k:
            if y == x:
                return
        self.k.append(x)

    def __contains__(self, x):
        for y in self.k:
            if y == x:
                return True
        return False

    def __iter__(self):
        return iter(list(self.k))

    def __len__(self):
        return len(self.k)


class _NoAtexit:
    @staticmethod
    def register(f, *a, **k):
        return f


def install_storage_models():
    """swap the C-level environment of molli.storage for the models; returns the fresh FS"""
    import molli.storage.ukvfile as U, molli.storage.backends as B, molli.storage.collection as C
    import struct as _struct
    fs = FS()
    FakePath.fs = fs
    FakePath.lock_monitor = None
    RWLock.registry = {}
    for nm in ("_FILE_HEADER", "_BLOCK_HEADER"):
        s = getattr(U, nm)
        if not isinstance(s, PyStruct):
            setattr(U, nm, PyStruct(s.format))
    U.Path = FakePath
    B.Path = FakePath
    C.Path = FakePath
    B.InterProcessReaderWriterLock = RWLock
    B.rwlock = lambda p: FakePath(p).p
    B.atexit = _NoAtexit
    U.dict = AssocDict
    return fs


def fresh_fs():
    Preempt.off()
    fs = FS()
    FakePath.fs = fs
    FakePath.lock_monitor = None
    RWLock.registry = {}
    return fs


def validate_storage_models() -> int:
    """differential validation of PyStruct / MemStream / AssocDict against struct / real files / dict; returns #traces"""
    import struct, tempfile, os, itertools, random
    n = 0
    rnd = random.Random(7)
    for fmt in (">16sHI10x", ">BI"):
        ps, rs = PyStruct(fmt), struct.Struct(fmt)
        assert ps.size == rs.size
        for _ in range(40):
            if fmt == ">BI":
                args = (rnd.choice([0, 1, 255, 256, -1, 7]), rnd.choice([0, 1, 2 ** 32 - 1, 2 ** 32, 70000]))
            else:
                args = (bytes(rnd.randrange(256) for _ in range(rnd.choice([0, 3, 16, 20]))), rnd.choice([0, 65535, 65536, 9]), rnd.choice([0, 5, 2 ** 32 - 1]))
            try:
                a = rs.pack(*args)
            except struct.error:
                a = "err"
            try:
                b = ps.pack(*args)
            except StructError:
                b = "err"
            assert a == b, (fmt, args, a, b)
            if a != "err":
                assert rs.unpack(a) == ps.unpack(a)
            n += 1
        for ln in (0, rs.size - 1, rs.size + 1):
            try:
                rs.unpack(b"\1" * ln); a = "ok"
            except struct.error:
                a = "err"
            try:
                ps.unpack(b"\1" * ln); b = "ok"
            except StructError:
                b = "err"
            assert a == b
            n += 1
    # stream model against a real file
    d = tempfile.mkdtemp(prefix="vm_")
    try:
        for trial in range(30):
            fs = FS()
            fs.files["f"] = b""
            m = MemStream(fs, "f", "w+b")
            p = os.path.join(d, f"f{trial}")
            r = open(p, "w+b")
            for _ in range(12):
                op = rnd.choice(["w", "s0", "s1", "s2", "r", "t", "tell"])
                if op == "w":
                    b = bytes(rnd.randrange(256) for _ in range(rnd.randrange(5)))
                    assert m.write(b) == r.write(b)
                elif op[0] == "s":
                    wh = int(op[1]); off = rnd.randrange(0, 6) if wh != 2 else -rnd.randrange(0, 2)
                    try:
                        x = r.seek(off, wh)
                    except OSError:
                        x = "err"
                    try:
                        y = m.seek(off, wh)
                    except OSError:
                        y = "err"
                    assert x == y, (op, off, x, y)
                elif op == "r":
                    k = rnd.choice([-1, 0, 2, 9])
                    assert m.read(k) == r.read(k)
                elif op == "t":
                    r.truncate(); m.truncate()
                else:
                    assert m.tell() == r.tell()
                r.flush()
                assert open(p, "rb").read() == fs.files["f"]
            r.close()
            n += 1
    finally:
        import shutil
        shutil.rmtree(d, ignore_errors=True)
    # AssocDict against dict
    for trial in range(20):
        a, b = AssocDict(), {}
        for _ in range(10):
            k = bytes([rnd.randrange(3)]); v = rnd.randrange(9)
            if rnd.random() < .6:
                a[k] = v; b[k] = v
            else:
                assert (k in a) == (k in b)
                assert a.get(k) == b.get(k)
            assert list(a.keys()) == list(b.keys()) and len(a) == len(b)
        n += 1
    return n


class HandleCodec:
    """msgpack.dumps/loads model: the packed bytes are an opaque concrete handle; the value is normalised the way
    a msgpack round trip (dumps(use_single_float=True) / loads(use_list=False)) changes it:
    list/tuple -> tuple, IntEnum/bool/int -> int/bool, float -> float32-rounded float, dict -> dict, str/bytes/None kept."""
    store = []

    @classmethod
    def reset(cls):
        cls.store = []

    @classmethod
    def norm(cls, x, single=True):
        import enum
        if x is None or isinstance(x, (bool, str, bytes)):
            return x
        if isinstance(x, enum.IntEnum):
            return int(x)
        if isinstance(x, int):
            if not (-2 ** 63 <= x < 2 ** 64):
                raise OverflowError("Integer value out of range")
            return x
        if isinstance(x, float):
            if single:
                import struct
                return struct.unpack(">f", struct.pack(">f", x))[0]
            return x
        if isinstance(x, (list, tuple)):
            return tuple(cls.norm(y, single) for y in x)
        if isinstance(x, dict):
            return {cls.norm(k, single): cls.norm(v, single) for k, v in x.items()}
        raise TypeError(f"can not serialize {type(x).__name__!r} object")

    @classmethod
    def dumps(cls, obj, use_single_float=False, **kw):
        cls.store.append(cls.norm(obj, use_single_float))
        return b"#" + str(len(cls.store) - 1).encode() + b"#"

    packb = dumps

    @classmethod
    def loads(cls, b, use_list=True, **kw):
        if isinstance(b, (bytes, bytearray)) and bytes(b[:1]) == b"#" and bytes(b[-1:]) == b"#":
            v = cls.store[int(bytes(b[1:-1]).decode())]
            return v if not use_list else cls._listify(v)
        import msgpack
        return msgpack.loads(bytes(b), use_list=use_list, **kw)

    unpackb = loads

    @classmethod
    def _listify(cls, v):
        if isinstance(v, tuple):
            return [cls._listify(x) for x in v]
        if isinstance(v, dict):
            return {k: cls._listify(x) for k, x in v.items()}
        return v


def validate_handle_codec() -> int:
    import msgpack, enum, math

    class E1(enum.IntEnum):
        A = 3
    cases = [None, True, 0, -5, 2 ** 40, 1.5, 0.1, -3.25e10, "", "ab", b"", b"\x00\xff", (1, 2), [1, [2, (3,)]], {"a": 1, "b": {"c": [1, 2.5]}},
             E1.A, (E1.A, "x", None, 0.3), {1: "x"}, float("inf")]
    n = 0
    for c in cases:
        real = msgpack.loads(msgpack.dumps(c, use_single_float=True), use_list=False, strict_map_key=False)
        HandleCodec.reset()
        mod = HandleCodec.loads(HandleCodec.dumps(c, use_single_float=True), use_list=False)
        assert real == mod and type(real) == type(mod), (c, real, mod)
        n += 1
    x = float("nan")
    r = msgpack.loads(msgpack.dumps(x, use_single_float=True))
    assert math.isnan(r) and math.isnan(HandleCodec.norm(x))
    for bad in ({1, 2}, object()):
        try:
            msgpack.dumps(bad); a = "ok"
        except TypeError:
            a = "err"
        try:
            HandleCodec.dumps(bad); b = "ok"
        except TypeError:
            b = "err"
        assert a == b
        n += 1
    return n + 1
