"""vcheck driver: ./vcheck C02 --tier quick ; ./vcheck --replay evidence/replays/C02-0.json"""
import argparse, importlib, json, os, sys, tempfile, warnings
warnings.filterwarnings("ignore")
os.environ.setdefault("MOLLI_HOME", tempfile.mkdtemp(prefix="molli_home_"))
from .common import Report, EXIT_INCONCLUSIVE


def main():
    ap = argparse.ArgumentParser()
    ap.add_argument("prop", nargs="?")
    ap.add_argument("--tier", default=os.environ.get("VERIF_TIER", "quick"), choices=["quick", "thorough"])
    ap.add_argument("--replay")
    a = ap.parse_args()
    if a.replay:
        d = json.load(open(a.replay))
        if d.get("engine") == "XH":
            from .xh import replay
            mod = importlib.import_module(d["module"])
            r, err = replay(d["module"], d["call"], real=getattr(mod, "HAS_REAL", False), split=d.get("split"), env=d.get("env"))
            print(json.dumps(r, indent=1))
            sys.exit(1 if (r is not None and not r["ok"]) else 0)
        else:
            mod = importlib.import_module(d["module"])
            ok, detail = mod.replay(d)
            print(detail)
            sys.exit(0 if ok else 1)
    mod = importlib.import_module(f"harness.{a.prop}")
    rep = Report(prop=a.prop, tier=a.tier)
    try:
        mod.run(rep, a.tier)
    except Exception as e:  # harness error: never a VIOLATION
        import traceback
        traceback.print_exc()
        rep.notes.append(f"harness error: {type(e).__name__}: {e}")
        from .common import Obligation
        rep.add(Obligation(name="harness", engine="-", status="inconclusive", detail=f"{type(e).__name__}: {e}"))
    sys.exit(rep.finish())


if __name__ == "__main__":
    main()
