#pragma once
#include <initializer_list>
