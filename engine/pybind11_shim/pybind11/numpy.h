#pragma once
