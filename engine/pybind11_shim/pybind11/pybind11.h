#pragma once
#include <cstddef>
#include <initializer_list>
#include <sys/types.h>
namespace pybind11 { using ssize_t = ::ssize_t; struct module_ { template<class...A> void def(A...){} };
 struct gil_scoped_release{};
 struct array { enum {c_style=1, forcecast=2}; };
 template<class T,int F> struct array_t { array_t(){}; template<class L> array_t(std::initializer_list<L>){}; ssize_t shape(int) const {return 0;}
   template<int N> struct U { template<class...I> const T* data(I...) const {return nullptr;} template<class...I> T& operator()(I...) { static T t; return t;} };
   template<int N> U<N> unchecked() const {return U<N>();} template<int N> U<N> mutable_unchecked() {return U<N>();} };
}
