#pragma once
#include <cstddef>
#include <sys/types.h>
// Stand-in for the two pybind11 headers molli_xt includes (pybind11 itself is not installed in the sandbox): just enough of array_t for
// the distance kernels.  array_t models a C-contiguous array -- what the `c_style | forcecast` flags of molli::carray guarantee -- as a data
// pointer plus up to three extents; unchecked<N>() / mutable_unchecked<N>() give row-major element access, as pybind11's accessors do
// for contiguous data.  The result array's storage comes from the harness (shim_result_buffer).
extern "C" void *shim_result_buffer(ssize_t n_elements, ssize_t element_size);
namespace pybind11 {
using ssize_t = ::ssize_t;
struct module_ { template <class... A> void def(A...) {} };
struct gil_scoped_release {};
struct array { enum { c_style = 1, forcecast = 2 }; };
struct shape_t { ssize_t a = 1, b = 1, c = 1; };
template <class T, int F> struct array_t {
    T *p; ssize_t shp[3];
    array_t() : p(nullptr), shp{0, 0, 0} {}
    array_t(T *data, ssize_t a, ssize_t b, ssize_t c) : p(data), shp{a, b, c} {}
    array_t(shape_t s) : shp{s.a, s.b, s.c} { p = (T *)shim_result_buffer(s.a * s.b * s.c, sizeof(T)); }
    ssize_t shape(int i) const { return shp[i]; }
    template <int N> struct U {
        T *p; ssize_t s1, s2;
        const T *data(ssize_t i, ssize_t j) const { return p + i * s1 + j; }
        const T *data(ssize_t i, ssize_t j, ssize_t k) const { return p + (i * s1 + j) * s2 + k; }
        T &operator()(ssize_t i, ssize_t j) { return p[i * s1 + j]; }
        T &operator()(ssize_t i, ssize_t j, ssize_t k) { return p[(i * s1 + j) * s2 + k]; }
    };
    template <int N> U<N> unchecked() const { return U<N>{p, shp[1], shp[2]}; }
    template <int N> U<N> mutable_unchecked() { return U<N>{p, shp[1], shp[2]}; }
};
}
