"""SHP — shape-level numpy model: an array is only its shape tuple (entries may be CrossHair symbolic ints).
Implements exactly the numpy calls molli/chem/ensemble.py, molecule.py and geometry.py make on ensemble arrays, with numpy's
broadcasting / concatenation / index-bounds rules raising the same exception types.  validate() compares every operation with
real numpy on all concrete shapes with extents <= 3."""
nan = float("nan")
newaxis = None
float64 = "float64"
float32 = "float32"
inf = float("inf")


class SA:
    def __init__(self, shape):
        self.shape = tuple(shape)

    @property
    def ndim(self):
        return len(self.shape)

    @property
    def dtype(self):
        return "float64"

    def __len__(self):
        if not self.shape:
            raise TypeError("len() of unsized object")
        return self.shape[0]

    def _bc_into(self, other):
        """numpy rule for self[...] = other / self op= other: other must broadcast to self's shape"""
        o = shape_of(other)
        a, b = list(self.shape), list(o)
        while len(b) > len(a) and b and b[0] == 1:
            b = b[1:]
        if len(b) > len(a):
            raise ValueError(f"could not broadcast input array from shape {o} into shape {self.shape}")
        b = [1] * (len(a) - len(b)) + b
        for x, y in zip(a, b):
            if not (x == y or y == 1):
                raise ValueError(f"could not broadcast input array from shape {o} into shape {self.shape}")

    def __setitem__(self, key, val):
        self[key]._bc_into(val)

    def __getitem__(self, key):
        if not isinstance(key, tuple):
            key = (key,)
        shp, dims, di = [], list(self.shape), 0
        for k in key:
            if k is None:
                shp.append(1)
            elif isinstance(k, slice):
                if k != slice(None):
                    raise NotImplementedError("only full slices are modelled")
                if di >= len(dims):
                    raise IndexError("too many indices for array")
                shp.append(dims[di])
                di += 1
            else:
                if di >= len(dims):
                    raise IndexError("too many indices for array")
                n = dims[di]
                if not (-n <= k < n):
                    raise IndexError(f"index {k} is out of bounds for axis {di} with size {n}")
                di += 1
        shp.extend(dims[di:])
        return SA(shp)

    def _bin(self, o):
        a, b = list(self.shape), list(shape_of(o))
        n = max(len(a), len(b))
        a = [1] * (n - len(a)) + a
        b = [1] * (n - len(b)) + b
        out = []
        for x, y in zip(a, b):
            if x == y or y == 1:
                out.append(x)
            elif x == 1:
                out.append(y)
            else:
                raise ValueError("operands could not be broadcast together")
        return SA(out)

    __add__ = __sub__ = __mul__ = __truediv__ = __radd__ = __rmul__ = __rsub__ = _bin

    def __neg__(self):
        return SA(self.shape)

    def _ibin(self, o):
        r = self._bin(o)
        if tuple(r.shape) != tuple(self.shape):
            raise ValueError("non-broadcastable output operand")
        return self

    __iadd__ = __isub__ = __imul__ = __itruediv__ = _ibin

    def __matmul__(self, o):
        b = shape_of(o)
        if len(b) != 2 or len(self.shape) < 1:
            raise NotImplementedError
        if self.shape[-1] != b[-2]:
            raise ValueError("matmul: Input operand 1 has a mismatch in its core dimension 0")
        return SA(self.shape[:-1] + (b[-1],))

    def astype(self, t):
        return SA(self.shape)

    def copy(self):
        return SA(self.shape)

    def tobytes(self):
        return b""

    def reshape(self, *shape):
        if len(shape) == 1 and isinstance(shape[0], (tuple, list)):
            shape = tuple(shape[0])
        return reshape(self, shape)


def _prod(s):
    p = 1
    for x in s:
        p = p * x
    return p


def shape_of(x):
    if isinstance(x, SA):
        return x.shape
    if isinstance(x, (int, float)):
        return ()
    if isinstance(x, (list, tuple)):
        if len(x) == 0:
            return (0,)
        s0 = tuple(shape_of(x[0]))
        for y in x[1:]:
            if tuple(shape_of(y)) != s0:
                raise ValueError("setting an array element with a sequence. The requested array has an inhomogeneous shape")
        return (len(x),) + s0
    if hasattr(x, "shape"):
        return tuple(x.shape)
    raise TypeError(type(x))


def _tup(shape):
    return tuple(shape) if isinstance(shape, (tuple, list)) else (shape,)


def full(shape, v=None, dtype=None):
    s = _tup(shape)
    for d in s:
        if d < 0:
            raise ValueError("negative dimensions are not allowed")
    return SA(s)


def zeros(shape, dtype=None):
    return full(shape)


ones = empty = zeros


def array(x, dtype=None):
    return SA(shape_of(x))


asarray = array


def append(a, b, axis=None):
    sa, sb = tuple(shape_of(a)), tuple(shape_of(b))
    if axis is None:
        return SA((_prod(sa) + _prod(sb),))
    if axis != 0:
        raise NotImplementedError
    if len(sa) != len(sb):
        raise ValueError("all the input arrays must have same number of dimensions")
    for x, y in zip(sa[1:], sb[1:]):
        if x != y:
            raise ValueError("all the input array dimensions except for the concatenation axis must match exactly")
    return SA((sa[0] + sb[0],) + sa[1:])


def concatenate(arrs, axis=0):
    out = arrs[0]
    for x in arrs[1:]:
        out = append(out, x, axis=axis)
    return SA(shape_of(out))


def reshape(a, shape):
    s = _tup(shape)
    n = _prod(shape_of(a))
    if any(d == -1 for d in s):
        rest = _prod([d for d in s if d != -1])
        if rest == 0 or n % rest != 0:
            raise ValueError("cannot reshape array")
        s = tuple((n // rest) if d == -1 else d for d in s)
    if _prod(s) != n:
        raise ValueError(f"cannot reshape array of size {n} into shape {s}")
    return SA(s)


ndarray = SA


def validate() -> int:
    """differential validation against numpy on all concrete shapes with extents <= 3 (ranks 0..3)"""
    import numpy as np, itertools
    n = 0
    shapes = [()] + [s for r in (1, 2, 3) for s in itertools.product(range(0, 3), repeat=r)]

    def run(f):
        try:
            return ("ok", tuple(f().shape))
        except (ValueError, IndexError) as e:
            return ("err", type(e).__name__)
        except NotImplementedError:
            return None

    for a in shapes:
        for b in shapes:
            A, B = np.zeros(a), np.zeros(b)
            SA_, SB_ = SA(a), SA(b)
            pairs = [(lambda: np.append(A, B, axis=0), lambda: append(SA_, SB_, axis=0)) if a and b else None,
                     (lambda: A + B, lambda: SA_ + SB_),
                     (lambda: np.append(A, [B], axis=0), lambda: append(SA_, [SB_], axis=0)) if a else None]
            if len(b) == 2:
                pairs.append((lambda: A @ B, lambda: SA_ @ SB_) if a else None)
            for pr in pairs:
                if pr is None:
                    continue
                m = run(pr[1])
                if m is None:
                    continue
                r = run(pr[0])
                assert r == m, (a, b, r, m)
                n += 1
            # in-place ops and slice assignment

            def np_iadd():
                X = np.zeros(a); X += B; return X

            def np_set():
                X = np.zeros(a); X[:] = B; return X

            def m_iadd():
                X = SA(a); X += SB_; return X

            def m_set():
                X = SA(a); X[:] = SB_; return X
            for f, g in ((np_iadd, m_iadd), (np_set, m_set) if a else (None, None)):
                if f is None:
                    continue
                r, m = run(f), run(g)
                assert r == m, ("inplace", a, b, r, m)
                n += 1
    for a in shapes:
        if not a:
            continue
        A, S = np.zeros(a), SA(a)
        for i in range(-4, 4):
            r, m = run(lambda: A[i]), run(lambda: S[i])
            assert r == m, ("idx", a, i, r, m)
            n += 1
        r, m = run(lambda: A[np.newaxis, :]), run(lambda: S[None, :])
        assert r == m
        if len(a) >= 2:
            r, m = run(lambda: A[:, np.newaxis]), run(lambda: S[:, None])
            assert r == m
        for tgt in [(-1,), (1, -1), (-1, 3), (a[0], -1)] + [s for s in shapes if s]:
            r, m = run(lambda: A.reshape(tgt)), run(lambda: S.reshape(tgt))
            if m is not None:
                assert r == m, ("reshape", a, tgt, r, m)
                n += 1
    return n
