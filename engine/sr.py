"""SR — symbolic-real execution of molli's numeric code: numpy object arrays of z3 Real terms, branch forking by re-execution,
per-component QF_NRA goals discharged in forked, hard-killed worker processes, numeric replay of every model.

Reals are not floats: every SR verdict is about the algebra of the implemented formulas (see DESIGN.md 2.2)."""
from __future__ import annotations
import multiprocessing as mp, os, time, types, json
from fractions import Fraction
import numpy as np
import z3

from .common import Obligation, Report, NCPU

_MP = mp.get_context("fork")


class Abort(BaseException):
    pass


class PathBound(Exception):
    pass


class Ctx:
    def __init__(self):
        self.reset([])

    def reset(self, decisions):
        self.cons = []          # path condition + definitional constraints (sqrt, reciprocal, unit circle)
        self.oblig = []         # side obligations: denominators that must be non-zero
        self.n = 0
        self.memo = {}
        self.decisions = list(decisions)
        self.pos = 0
        self.trace = []
        self.nfeas = 0
        self.undecided = []

    def fresh(self, p):
        self.n += 1
        return z3.Real(f"{p}!{self.n}")

    def assume(self, *cs):
        for c in cs:
            self.cons.append(c.c if isinstance(c, SB) else c)


CTX = Ctx()
FEAS_TIMEOUT = 30.0


STRATEGIES = ("nra", "smt")      # portfolio: z3's QF_NRA strategy (nlsat first) and the SMT core with its non-linear lemmas (Groebner / tangents);
                                 # each decides goals the other needs a minute for; both run, the first definite answer wins


def _solve(cons, extra, q, want_model, strategy="nra"):
    s = z3.SolverFor("QF_NRA") if strategy == "nra" else z3.SimpleSolver()
    s.add(cons)
    s.add(extra)
    t = time.time()
    r = s.check()
    model = None
    if str(r) == "sat" and want_model:
        m = s.model()
        model = {}
        for d in m.decls():
            v = m[d]
            try:
                if z3.is_rational_value(v):
                    model[d.name()] = f"{v.numerator_as_long()}/{v.denominator_as_long()}"
                elif z3.is_algebraic_value(v):
                    a = v.approx(20)
                    model[d.name()] = f"{a.numerator_as_long()}/{a.denominator_as_long()}"
                else:
                    model[d.name()] = str(v)
            except Exception:
                model[d.name()] = str(v)
    q.put((str(r), time.time() - t, model, strategy))


def _race(cons, extra, want_model):
    """start one forked child per strategy; returns list of (proc, queue)"""
    out = []
    for st in STRATEGIES:
        q = _MP.Queue()
        p = _MP.Process(target=_solve, args=(list(cons), extra, q, want_model, st))
        p.start()
        out.append((p, q))
    return out


def _poll(race):
    """(result or None, all_finished): the first sat/unsat wins; 'unknown' only once every strategy has given up"""
    alive = False
    unknown = None
    for p, q in race:
        res = None
        try:
            res = q.get_nowait()
        except Exception:
            if p.is_alive():
                alive = True
            else:
                try:
                    res = q.get(timeout=0.2)
                except Exception:
                    res = None
        if res is not None:
            if res[0] in ("sat", "unsat"):
                return res[:3], True
            unknown = res[:3]
            race[race.index((p, q))] = (p, _Done())
    if alive:
        return None, False
    return (unknown or ("unknown", 0.0, None)), True


class _Done:
    def get_nowait(self):
        raise Exception("drained")

    def get(self, timeout=0):
        raise Exception("drained")


def _kill(race):
    for p, _ in race:
        if p.is_alive():
            p.kill()
        p.join()


def hard_check(cons, extra, timeout, want_model=False):
    """one query in forked children (one per strategy) that are killed at the deadline (z3's own timeout is not honoured inside nlsat)"""
    race = _race(cons, extra, want_model)
    t0 = time.time()
    res = None
    while time.time() - t0 < timeout:
        res, fin = _poll(race)
        if res is not None:
            break
        time.sleep(0.02)
    _kill(race)
    if res is None:
        return "timeout", timeout, None
    return res


def feasible(extra):
    CTX.nfeas += 1
    # cheap linear pre-check in process, the hard way only when needed
    r, _, _ = hard_check(CTX.cons, extra, FEAS_TIMEOUT)
    return r


def lift(x):
    if isinstance(x, SR):
        return x.e
    if isinstance(x, (bool, np.bool_)):
        return z3.RealVal(int(x))
    if isinstance(x, (int, np.integer)):
        return z3.RealVal(int(x))
    if isinstance(x, (float, np.floating)):
        f = Fraction(float(x))
        return z3.RealVal(f"{f.numerator}/{f.denominator}")
    if isinstance(x, Fraction):
        return z3.RealVal(f"{x.numerator}/{x.denominator}")
    raise TypeError(type(x))


def _arr(o):
    return isinstance(o, np.ndarray)


class SB:
    """symbolic bool; __bool__ forks (the function is re-executed once per feasible decision vector)"""

    def __init__(self, c):
        self.c = c

    def __bool__(self):
        if CTX.pos < len(CTX.decisions):
            d = CTX.decisions[CTX.pos]
        else:
            c = z3.simplify(self.c)
            if z3.is_true(c):
                ft, ff = "sat", "unsat"
            elif z3.is_false(c):
                ft, ff = "unsat", "sat"
            else:
                ft = feasible(self.c)
                ff = feasible(z3.Not(self.c))
            und = ("unknown", "timeout")
            if ft in und and ff in und:
                raise PathBound(f"branch feasibility undecided ({ft}/{ff}) at decision {len(CTX.decisions)}: {str(c)[:200]}")
            if ft in und or ff in und:
                # one side is feasible, the other could not be decided: go on along the feasible side (whatever is found there is real) and
                # record the other side as unexplored, which keeps the run from ever being reported as a full pass
                CTX.undecided.append(f"decision {len(CTX.decisions)}: side '{'true' if ft in und else 'false'}' of {str(c)[:160]} undecided ({ft}/{ff}), not explored")
                ft, ff = ("unsat", "sat") if ft in und else ("sat", "unsat")
            if ft == "unsat" and ff == "unsat":
                raise Abort("infeasible path")
            if ft != "unsat":
                d = True
                CTX.trace.append((len(CTX.decisions), ff != "unsat"))
            else:
                d = False
                CTX.trace.append((len(CTX.decisions), False))
            CTX.decisions.append(d)
        CTX.pos += 1
        CTX.cons.append(self.c if d else z3.Not(self.c))
        return d

    def __and__(self, o):
        return SB(z3.And(self.c, o.c if isinstance(o, SB) else z3.BoolVal(bool(o))))

    __rand__ = __and__

    def __or__(self, o):
        return SB(z3.Or(self.c, o.c if isinstance(o, SB) else z3.BoolVal(bool(o))))

    __ror__ = __or__

    def __invert__(self):
        return SB(z3.Not(self.c))


class SR:

    def __init__(self, e):
        self.e = e

    def __add__(s, o):
        if _arr(o):
            return NotImplemented
        return SR(s.e + lift(o))
    __radd__ = __add__

    def __sub__(s, o):
        if _arr(o):
            return NotImplemented
        return SR(s.e - lift(o))

    def __rsub__(s, o):
        if _arr(o):
            return NotImplemented
        return SR(lift(o) - s.e)

    def __mul__(s, o):
        if _arr(o):
            return NotImplemented
        return SR(s.e * lift(o))
    __rmul__ = __mul__

    def __neg__(s):
        return SR(-s.e)

    def __pos__(s):
        return s

    def __floordiv__(s, o):
        if _arr(o):
            return NotImplemented
        return SRFloor(s.e, lift(o))

    def __truediv__(s, o):
        if _arr(o):
            return NotImplemented
        d = z3.simplify(lift(o))
        if z3.is_rational_value(d):
            if d.numerator_as_long() == 0:
                raise ZeroDivisionError("division by zero")
            return SR(s.e / d)
        key = "rcp" + d.sexpr()
        if key not in CTX.memo:
            r = CTX.fresh("rcp")
            CTX.oblig.append((d != 0, len(CTX.cons)))          # to be shown from what is known BEFORE the defining constraint (which itself implies d != 0)
            CTX.cons.append(r * d == 1)
            CTX.memo[key] = r
            rad = CTX.memo.get("radicand" + d.sexpr())
            if rad is not None:          # reciprocal of a square root: (1/sqrt(e))^2 * e == 1 is implied; stating it spares nlsat the derivation
                CTX.cons.append(r * r * rad == 1)
        return SR(s.e * CTX.memo[key])

    def __rtruediv__(s, o):
        if _arr(o):
            return NotImplemented
        return SR(lift(o)).__truediv__(s)

    def __pow__(s, k):
        if k == 2:
            return SR(s.e * s.e)
        if k == 0.5:
            return s.sqrt()
        if isinstance(k, int) and k >= 0:
            r = z3.RealVal(1)
            for _ in range(k):
                r = r * s.e
            return SR(r)
        raise NotImplementedError(f"power {k}")

    def sqrt(s):
        e = z3.simplify(s.e)
        if z3.is_rational_value(e):                       # a constant radicand that is a perfect square stays a constant (9/4 -> 3/2)
            import math
            n, d = e.numerator_as_long(), e.denominator_as_long()
            if n >= 0 and math.isqrt(n) ** 2 == n and math.isqrt(d) ** 2 == d:
                return SR(z3.RealVal(f"{math.isqrt(n)}/{math.isqrt(d)}"))
        key = "sqrt" + e.sexpr()
        if key not in CTX.memo:
            r = CTX.fresh("sqrt")
            CTX.oblig.append((e >= 0, len(CTX.cons)))
            CTX.cons += [r >= 0, r * r == e]
            CTX.memo[key] = r
            CTX.memo["radicand" + r.sexpr()] = e
        return SR(CTX.memo[key])

    def __abs__(s):
        return SR(z3.If(s.e >= 0, s.e, -s.e))

    def conjugate(s):
        return s

    def _cmp(s, o, f):
        if _arr(o):
            return NotImplemented
        return SB(f(s.e, lift(o)))

    def __le__(s, o): return s._cmp(o, lambda a, b: a <= b)
    def __lt__(s, o): return s._cmp(o, lambda a, b: a < b)
    def __ge__(s, o): return s._cmp(o, lambda a, b: a >= b)
    def __gt__(s, o): return s._cmp(o, lambda a, b: a > b)
    def __eq__(s, o): return s._cmp(o, lambda a, b: a == b)
    def __ne__(s, o): return s._cmp(o, lambda a, b: a != b)
    __hash__ = None

    def __bool__(s):
        return bool(SB(s.e != 0))

    def __float__(s):
        raise TypeError("a symbolic real cannot be turned into a float (the code under analysis forces a concrete value here)")

    def arccos(s):
        """angle in [0, pi] with the given cosine: sine = +sqrt(1 - c^2)"""
        return Angle(s, (1 - s * s).sqrt())

    def sign(s):
        """numpy.sign for object arrays falls back to comparisons; this is the explicit three-way fork"""
        if bool(s > 0):
            return 1
        if bool(s < 0):
            return -1
        return 0

    def arctan2(y, x):
        x = x if isinstance(x, SR) else SR(lift(x))
        r = (x * x + y * y).sqrt()
        return Angle(x / r, y / r)

    def __repr__(s):
        return f"SR({s.e})"


INT_BOUND = 4


class SRFloor(SR):
    """floor(num / den) for den > 0 (recorded as an obligation): only int() is supported, which forks over the values 0..INT_BOUND with the purely
    real constraints k * den <= num < (k + 1) * den (no integer sort enters the queries).  A value above the bound is an unwinding failure."""

    def __init__(s, num, den):
        s.num, s.den = num, den
        CTX.oblig.append((den > 0, len(CTX.cons)))

    @property
    def e(s):
        raise TypeError("floor division result used as a real: only int(a // b) is modelled")

    def __int__(s):
        for k in range(INT_BOUND + 1):
            if SB(z3.And(k * s.den <= s.num, s.num < (k + 1) * s.den)):
                return k
        raise PathBound(f"floor division result outside 0..{INT_BOUND}")

    __index__ = __int__


class Angle:
    """an angle as a point (cos, sin) on the unit circle"""

    def __init__(s, c, sn):
        s.c = c if isinstance(c, SR) else SR(lift(c))
        s.s = sn if isinstance(sn, SR) else SR(lift(sn))

    def __sub__(a, b):
        b = as_angle(b)
        return Angle(a.c * b.c + a.s * b.s, a.s * b.c - a.c * b.s)

    def __rsub__(a, b):
        return as_angle(b) - a

    def __add__(a, b):
        b = as_angle(b)
        return Angle(a.c * b.c - a.s * b.s, a.s * b.c + a.c * b.s)

    __radd__ = __add__

    def __neg__(a):
        return Angle(a.c, -a.s)

    def __mul__(a, k):
        """only the multiples an angle meets in molli: +1, -1, 0 (e.g. sign(x) * arccos(y))"""
        if isinstance(k, SR):
            raise TypeError("angle times a symbolic factor")
        k = float(k)
        if k == 1.0:
            return a
        if k == -1.0:
            return -a
        if k == 0.0:
            return Angle(1.0, 0.0)
        raise TypeError(f"angle times {k}")
    __rmul__ = __mul__


def as_angle(x):
    if isinstance(x, Angle):
        return x
    import math
    return Angle(math.cos(float(x)), math.sin(float(x)))


def _msin(a):
    import math
    return a.s if isinstance(a, Angle) else math.sin(a)


def _mcos(a):
    import math
    return a.c if isinstance(a, Angle) else math.cos(a)


def _msqrt(a):
    import math
    return a.sqrt() if isinstance(a, SR) else math.sqrt(a)


import math as _math
mathshim = types.SimpleNamespace(sin=_msin, cos=_mcos, sqrt=_msqrt, pi=_math.pi, radians=_math.radians, degrees=_math.degrees, isclose=_math.isclose,
                                 ceil=_math.ceil, floor=_math.floor, acos=_math.acos, atan2=_math.atan2)


def sym(name):
    return SR(z3.Real(name))


def sym_angle(name):
    c, s = z3.Real(name + "_c"), z3.Real(name + "_s")
    CTX.cons.append(c * c + s * s == 1)
    return Angle(SR(c), SR(s))


def vec(name, n=3):
    return np.array([SR(z3.Real(f"{name}{i}")) for i in range(n)], dtype=object)


def mat(name, r, c):
    return np.array([[SR(z3.Real(f"{name}{i}_{j}")) for j in range(c)] for i in range(r)], dtype=object)


def E(x):
    """z3 term of a symbolic or concrete number"""
    return lift(x)


def det3(R):
    return (R[0, 0] * (R[1, 1] * R[2, 2] - R[1, 2] * R[2, 1]) - R[0, 1] * (R[1, 0] * R[2, 2] - R[1, 2] * R[2, 0])
            + R[0, 2] * (R[1, 0] * R[2, 1] - R[1, 1] * R[2, 0]))


def explore(fn, max_paths=16, initial=None):
    """run fn() once per feasible decision vector; fn returns a list of goals (name, negated_goal[, kind]).
    Returns list of dicts {decisions, cons, oblig, goals}.  Raises PathBound when the bound is exhausted (an unwinding failure, not a pass).
    initial = a forced prefix of branch decisions: only paths below it are explored, its conditions join the path condition without a
    feasibility query (the 'path-feasible' vacuity query of discharge() still has to come back sat)."""
    results = []
    stack = [list(initial or [])]
    seen = 0
    while stack:
        dec = stack.pop()
        CTX.reset(dec)
        try:
            goals = fn()
        except Abort:
            continue
        except PathBound:
            raise
        except Exception as e:   # the code under analysis raised on this path: a candidate violation (sat iff the path is feasible), to be replayed
            import traceback
            tb = traceback.extract_tb(e.__traceback__)
            where = next((f"{fr.filename}:{fr.lineno}" for fr in reversed(tb) if "/molli/" in fr.filename), "")
            goals = [(f"raised {type(e).__name__}: {str(e)[:120]} at {where}", z3.BoolVal(True))]
        seen += 1
        if seen > max_paths:
            raise PathBound(f"more than {max_paths} feasible paths")
        for idx, alt in CTX.trace:
            if alt:
                stack.append(CTX.decisions[:idx] + [not CTX.decisions[idx]])
        results.append({"decisions": list(CTX.decisions), "cons": list(CTX.cons), "oblig": list(CTX.oblig), "goals": goals, "nfeas": CTX.nfeas, "undecided": list(CTX.undecided)})
    return results


def discharge(rep: Report, label: str, paths, timeout=120, replay=None, expect_sat=(), denominators=True):
    """one obligation per (path, goal): unsat = holds for all reals satisfying the path condition; sat = model -> numeric replay.
    Goals named in expect_sat are negative controls (vacuity guards): they must come back sat.
    Also: the path condition alone must be sat (vacuity), and every recorded denominator must be non-zero on the path (if requested)."""
    tasks = []
    for pi, p in enumerate(paths):
        for u in p.get("undecided", []):
            rep.add(Obligation(name=f"{label}/path{pi}{p['decisions']}/unexplored branch", engine="SR", status="inconclusive", detail=u))
        tasks.append((pi, "path-feasible", None, "vacuity"))
        if denominators:
            for k, (ob, upto) in enumerate(p["oblig"]):
                # definedness of the k-th division / square root: decided under the constraints that precede it (assumptions and earlier branch
                # decisions); the operation's own defining constraint and everything after it would make the question vacuous
                tasks.append((pi, f"defined#{k}", z3.Not(ob), ("defined", upto)))
        for g in p["goals"]:
            name, neg = g[0], g[1]
            tasks.append((pi, name, neg, "control" if name in expect_sat else "goal"))
    running = []          # (race, t0, task)
    pending = list(tasks)
    done = []
    width = max(1, NCPU // len(STRATEGIES))
    while pending or running:
        while pending and len(running) < width:
            t = pending.pop(0)
            pi, name, neg, kind = t
            cons = paths[pi]["cons"][:kind[1]] if isinstance(kind, tuple) else paths[pi]["cons"]
            running.append((_race(cons, [] if neg is None else [neg], True), time.time(), t))
        still = []
        for race, t0, t in running:
            res, fin = _poll(race)
            if res is not None:
                _kill(race)
                done.append((t, res))
            elif time.time() - t0 > timeout:
                _kill(race)
                done.append((t, ("timeout", timeout, None)))
            else:
                still.append((race, t0, t))
        running = still
        if running:
            time.sleep(0.02)
    order = {id(t): i for i, t in enumerate(tasks)}
    done.sort(key=lambda x: order[id(x[0])])
    for (pi, name, neg, kind), (r, dt, model) in done:
        ob = rep.add(Obligation(name=f"{label}/path{pi}{paths[pi]['decisions']}/{name}", engine="SR", solver_s=dt, paths=1))
        if kind == "vacuity":
            ob.status, ob.detail, ob.twin = ("discharged", "path condition satisfiable", "sat") if r == "sat" else ("inconclusive", f"path condition {r} (vacuous or undecided)", r)
        elif kind == "control":
            ob.status, ob.detail, ob.twin = ("discharged", "negative control is sat as it must be", "sat") if r == "sat" else ("inconclusive", f"negative control came back {r}", r)
        elif r == "unsat":
            ob.status, ob.detail, ob.twin = "discharged", "unsat", "n/a"
        elif r == "sat":
            ob.cex = model
            ok, detail = (None, "no replay function") if replay is None else replay(name, model, paths[pi])
            if ok is False:
                ob.status, ob.replay, ob.detail = "violated", "reproduced (float64 numeric replay)", detail
                path = rep.write_replay({"engine": "SR", "module": rep.extra.get("module", ""), "label": label, "goal": name, "model": model, "observed": detail})
                rep.violations.append((f"{label}/{name}: {detail}", path))
            else:
                ob.status, ob.replay, ob.detail = "inconclusive", "model did not reproduce numerically" if ok else "not replayed", f"sat; {detail}"
        else:
            ob.status, ob.detail = "inconclusive", f"solver answered {r} after {dt:.1f}s"
    return rep


def fval(model, name, default=0.0):
    """float value of a model constant"""
    v = model.get(name)
    if v is None:
        return default
    try:
        return float(Fraction(v))
    except Exception:
        return default
