"""Shared plumbing: paths, evidence files, known findings, replay files, verdict bookkeeping."""
from __future__ import annotations
import hashlib, importlib, inspect, json, os, sys, time
from dataclasses import dataclass, field
from pathlib import Path

ROOT = Path(__file__).resolve().parent.parent
REPO = Path(os.environ.get("MOLLI_REPO", "/repo"))
EVID = Path(os.environ.get("VERIF_EVID") or (ROOT / "evidence"))
REPLAYS = EVID / "replays"
PY = str(ROOT / ".venv" / "bin" / "python")
NCPU = int(os.environ.get("VERIF_JOBS", "16"))

EXIT_OK, EXIT_VIOLATION, EXIT_INCONCLUSIVE = 0, 1, 2


def load_known():
    p = ROOT / "known_findings.json"
    if not p.exists():
        return {"findings": [], "fixed": []}
    return json.loads(p.read_text())


def known_predicates(prop: str) -> dict:
    """predicate name -> finding entry, for findings recorded (not fixed) under this property.
    XH_NO_KF=1 (set for the witness replay) disables the exclusion so that the recorded input is actually exercised."""
    if os.environ.get("XH_NO_KF") == "1":
        return {}
    return {f["predicate"]: f for f in load_known()["findings"] if f["property"] == prop}


def source_digest(qualnames):
    """sha256 prefix of the current source text of each encoded function, read from the working tree"""
    out = {}
    for qn in qualnames:
        try:
            parts = qn.split(".")
            obj = None
            for i in range(len(parts), 0, -1):
                try:
                    obj = importlib.import_module(".".join(parts[:i]))
                    rest = parts[i:]
                    break
                except ImportError:
                    continue
            for r in rest:
                obj = inspect.getattr_static(obj, r) if not inspect.ismodule(obj) else getattr(obj, r)
            if isinstance(obj, (staticmethod, classmethod)):
                obj = obj.__func__
            if isinstance(obj, property):
                obj = obj.fget
            obj = inspect.unwrap(obj) if callable(obj) else obj
            src = inspect.getsource(obj)
            out[qn] = hashlib.sha256(src.encode()).hexdigest()[:12]
        except Exception as e:  # noqa
            out[qn] = f"unresolved ({type(e).__name__})"
    return out


@dataclass
class Obligation:
    """one solver-decided unit: a CrossHair condition, or one SR/IRFP query"""
    name: str
    engine: str                    # XH | SR | IRFP | SHP
    status: str = "pending"        # discharged | violated | inconclusive | known
    detail: str = ""
    solver_s: float = 0.0
    paths: int = 0
    cex: object = None             # counterexample (call string / model)
    replay: str = ""               # reproduced | not-reproduced | n/a
    twin: str = ""                 # reachability twin outcome


@dataclass
class Report:
    prop: str
    tier: str
    t0: float = field(default_factory=time.time)
    obligations: list = field(default_factory=list)
    violations: list = field(default_factory=list)      # (what, replay_path)
    known_hits: list = field(default_factory=list)
    models_validated: int = 0
    encoded: list = field(default_factory=list)
    bounds: dict = field(default_factory=dict)
    assumptions: list = field(default_factory=list)
    outside: list = field(default_factory=list)
    samples: list = field(default_factory=list)
    notes: list = field(default_factory=list)
    level: str = "other"
    extra: dict = field(default_factory=dict)

    def add(self, ob: Obligation):
        self.obligations.append(ob)
        return ob

    def write_replay(self, payload: dict) -> str:
        REPLAYS.mkdir(parents=True, exist_ok=True)
        n = len(self.violations) + len(self.known_hits)
        p = REPLAYS / f"{self.prop}-{n}.json"
        payload = dict(payload, property=self.prop)
        p.write_text(json.dumps(payload, indent=1, default=repr))
        return str(p)

    def finish(self) -> int:
        obs = self.obligations
        n = len(obs)
        disc = sum(o.status in ("discharged",) for o in obs)
        inc = [o for o in obs if o.status == "inconclusive"]
        viol = [o for o in obs if o.status == "violated"]
        known = [o for o in obs if o.status == "known"]
        by_engine = {}
        for o in obs:
            e = by_engine.setdefault(o.engine, {"obligations": 0, "discharged": 0, "solver_s": 0.0, "paths": 0})
            e["obligations"] += 1
            e["discharged"] += o.status == "discharged"
            e["solver_s"] = round(e["solver_s"] + o.solver_s, 2)
            e["paths"] += o.paths
        paths = sum(o.paths for o in obs)
        samples = list(self.samples)
        for o in obs[:6]:
            samples.append({"obligation": o.name, "engine": o.engine, "status": o.status, "detail": o.detail[:300],
                            "paths_or_queries": o.paths, "solver_s": round(o.solver_s, 2), "twin": o.twin})
        for o in viol + known + inc:
            samples.append({"obligation": o.name, "status": o.status, "cex": repr(o.cex)[:400], "replay": o.replay, "detail": o.detail[:400]})
        ev = {
            "property_id": self.prop,
            "tier": self.tier,
            "seed": int(os.environ.get("VERIF_SEED", "0") or 0),
            "level": self.level,
            "coverage": {
                "explanation": (
                    "Bounded symbolic verification: each obligation is one CrossHair condition (z3 decides every branch of the real "
                    "molli byte-code on symbolic arguments; 'discharged' = 'Confirmed over all paths' inside the stated precondition) "
                    "or one SMT query (QF_NRA / QF_FP) generated by executing the real function on symbolic values; 'discharged' = unsat. "
                    "Verdicts hold only inside 'bounds'; 'outside_claim' lists what is not covered."),
                "obligations": n,
                "discharged": disc,
                "inconclusive": len(inc),
                "violated": len(viol),
                "known_findings_hit": len(known),
                "evaluations": max(paths, n),
                "distinct_nontrivial": max(paths, n),
                "rule": "evaluations = execution paths explored by CrossHair (each decided feasible by z3) plus SMT queries discharged; "
                        "every path/query is distinct by construction (a different branch-decision vector or goal)",
                "per_engine": by_engine,
                "solver_time_s": round(sum(o.solver_s for o in obs), 2),
                "functions_encoded": source_digest(self.encoded),
                "bounds": self.bounds,
                "outside_claim": self.outside,
                "traces_validated_against_impl": self.models_validated,
                "trusted_base": ["CrossHair 0.0.110 symbolic interpreter", "z3 5.1.0", "environment models listed in assumptions (validated against the real implementation on this run)"],
                "checker_cmd": f"./vcheck {self.prop} --tier {self.tier}",
                "samples": samples,
                "obligation_list": [{"name": o.name, "engine": o.engine, "status": o.status, "s": round(o.solver_s, 2), "paths": o.paths, "twin": o.twin} for o in obs],
                "notes": self.notes,
                **self.extra,
            },
            "assumptions": self.assumptions,
            "wall_s": round(time.time() - self.t0, 2),
            "violations": len(self.violations),
        }
        EVID.mkdir(exist_ok=True)
        (EVID / f"{self.prop}.json").write_text(json.dumps(ev, indent=1, default=repr))
        for what in self.known_hits:
            print(f"KNOWN-FINDING: property={self.prop} {what}")
        for what, path in self.violations:
            print(f"VIOLATION property={self.prop} replay={path}")
            print(f"  {what}")
        print(f"[{self.prop}/{self.tier}] obligations={n} discharged={disc} known={len(known)} violated={len(viol)} inconclusive={len(inc)} "
              f"paths/queries={paths} wall={ev['wall_s']}s")
        if self.violations:
            return EXIT_VIOLATION
        if inc:
            for o in inc:
                print(f"  INCONCLUSIVE {o.name}: {o.detail[:300]}")
            return EXIT_INCONCLUSIVE
        return EXIT_OK
