"""IRFP — the C++ kernels of molli_xt compiled to LLVM IR (clang -O1, from /repo's current source against a small stand-in for the pybind11
headers) and executed by a mini interpreter over z3 floating-point terms.  Integers (loop counters, shapes, offsets) are concrete, so every
loop is unrolled exactly; a step budget is the unwinding assertion.  Floating-point values are symbolic IEEE terms (RNE)."""
from __future__ import annotations
import os, re, subprocess, tempfile, shutil, time
import z3

HERE = os.path.dirname(os.path.abspath(__file__))
SHIM = os.path.join(HERE, "pybind11_shim")


class IRError(Exception):
    pass


def compile_ir(driver_src: str, repo="/repo") -> str:
    d = tempfile.mkdtemp(prefix="irfp_")
    try:
        with open(os.path.join(d, "drv.cpp"), "w") as f:
            f.write(driver_src)
        cmd = ["clang++-14", "-O1", "-S", "-emit-llvm", "-std=c++17", "-fno-vectorize", "-fno-slp-vectorize", "-fno-unroll-loops", "-fno-discard-value-names",
               f"-I{SHIM}", f"-I{repo}/molli_xt", "-o", os.path.join(d, "drv.ll"), os.path.join(d, "drv.cpp")]
        p = subprocess.run(cmd, capture_output=True, text=True)
        if p.returncode != 0:
            raise IRError("clang failed: " + p.stderr[-1500:])
        return open(os.path.join(d, "drv.ll")).read()
    finally:
        shutil.rmtree(d, ignore_errors=True)


def functions(ll: str) -> dict:
    out = {}
    for m in re.finditer(r"^define[^\n]*?@([\w.$]+)\((.*?)\)[^\n]*\{\n(.*?)\n\}", ll, re.S | re.M):
        out[m.group(1)] = (m.group(2), m.group(3))
    return out


class Ptr:
    def __init__(self, buf, off):
        self.buf, self.off = buf, off


SORTS = {"float": z3.Float32(), "double": z3.Float64()}
_NAME = r"%[\w.]+"


class Machine:
    """memory = named buffers (python lists of z3 FP terms / ints); executes one function with the given argument values"""

    def __init__(self, ll: str, max_steps=20000):
        self.funcs = functions(ll)
        self.max_steps = max_steps
        self.steps = 0
        self.loads = 0
        self.stores = 0
        self.mem = {}
        self.writes = {}       # buffer -> per-cell store count
        self.rm = z3.RNE()

    def buffer(self, name, values):
        self.mem[name] = list(values)
        return Ptr(name, 0)

    def call(self, fname, args):
        sig, body = self.funcs[fname]
        params = [a.strip().split()[-1] for a in self._split_args(sig)] if sig.strip() else []
        env = dict(zip(params, args))
        blocks, order = {}, []
        cur = None
        for line in body.split("\n"):
            line = line.split(";")[0].rstrip() if not line.lstrip().startswith(";") else ""
            if not line.strip():
                continue
            m = re.match(r"^([\w.]+):", line)
            if m:
                cur = m.group(1)
                blocks[cur] = []
                order.append(cur)
                continue
            if cur is None:
                cur = "%entry%"
                blocks[cur] = []
                order.append(cur)
            blocks[cur].append(line.strip())
        # the implicit entry label is the next unnamed value number after the parameters
        entry_label = str(len(params)) if all(re.match(r"%\d+$", p) for p in params) else "entry"
        prev, cur = None, order[0]
        names = {order[0]: entry_label}
        while True:
            nxt = None
            phis = {}
            for ins in blocks[cur]:
                self.steps += 1
                if self.steps > self.max_steps:
                    raise IRError("unwinding assertion: step budget exceeded")
                m = re.match(rf"({_NAME}) = phi (\w+) (.*)", ins)
                if m:
                    for v, l in re.findall(r"\[ ([^,]+), %([\w.]+) \]", m.group(3)):
                        if l == names.get(prev, prev):
                            phis[m.group(1)] = self._val(v, env, m.group(2))
                    continue
                if phis:
                    env.update(phis)
                    phis = {}
                r = self._exec(ins, env)
                if r is not None:
                    kind, v = r
                    if kind == "ret":
                        return v
                    nxt = v
            if phis:
                env.update(phis)
            if nxt is None:
                raise IRError("block without terminator: " + cur)
            prev, cur = cur, nxt

    @staticmethod
    def _split_args(s):
        out, depth, cur = [], 0, ""
        for ch in s:
            if ch in "(<[{":
                depth += 1
            elif ch in ")>]}":
                depth -= 1
            if ch == "," and depth == 0:
                out.append(cur)
                cur = ""
            else:
                cur += ch
        if cur.strip():
            out.append(cur)
        return out

    def _val(self, tok, env, ty=None):
        tok = tok.strip()
        if tok in env:
            return env[tok]
        if re.match(r"^-?\d+$", tok):
            if ty in SORTS:
                return z3.FPVal(float(tok), SORTS[ty])
            return int(tok)
        if tok in ("true", "false"):
            return tok == "true"
        if re.match(r"^-?[\d.]+e[+-]?\d+$", tok) or re.match(r"^-?\d+\.\d*$", tok):
            return z3.FPVal(float(tok), SORTS[ty or "double"])
        if tok.startswith("0x"):
            import struct
            return z3.FPVal(struct.unpack(">d", bytes.fromhex(tok[2:].rjust(16, "0")))[0], SORTS[ty or "double"])
        if tok in ("null", "undef", "poison"):
            raise IRError("null/undef value used")
        raise IRError("unknown value " + tok)

    def _exec(self, ins, env):
        ins = re.sub(r",\s*![\w.]+ ![\w.]+", "", ins)
        ins = re.sub(r",\s*align \d+", "", ins)
        m = re.match(rf"({_NAME}) = getelementptr (?:inbounds )?([\w.%\"]+), [^,]+\* ({_NAME}), i64 ([^,]+)$", ins)
        if m:
            p = self._val(m.group(3), env)
            env[m.group(1)] = Ptr(p.buf, p.off + self._val(m.group(4), env))
            return
        m = re.match(rf"({_NAME}) = load (\w+), \w+\* ({_NAME})", ins)
        if m:
            p = self._val(m.group(3), env)
            buf = self.mem[p.buf]
            if not (0 <= p.off < len(buf)):
                raise IRError(f"out-of-bounds load {p.buf}[{p.off}] (size {len(buf)})")
            self.loads += 1
            if buf[p.off] is None:
                raise IRError(f"load of an uninitialised cell {p.buf}[{p.off}]")
            env[m.group(1)] = buf[p.off]
            return
        m = re.match(rf"store (\w+) ([^,]+), \w+\* ({_NAME})", ins)
        if m:
            p = self._val(m.group(3), env)
            buf = self.mem[p.buf]
            if not (0 <= p.off < len(buf)):
                raise IRError(f"out-of-bounds store {p.buf}[{p.off}] (size {len(buf)})")
            self.stores += 1
            buf[p.off] = self._val(m.group(2), env, m.group(1))
            if p.buf in self.writes:
                self.writes[p.buf][p.off] += 1
            return
        m = re.match(rf"({_NAME}) = (fsub|fmul|fadd|fdiv) (?:[a-z]+ )*?(float|double) ([^,]+), (.+)", ins)
        if m:
            x, y = self._val(m.group(4), env, m.group(3)), self._val(m.group(5), env, m.group(3))
            f = {"fsub": z3.fpSub, "fmul": z3.fpMul, "fadd": z3.fpAdd, "fdiv": z3.fpDiv}[m.group(2)]
            env[m.group(1)] = f(self.rm, x, y)
            return
        m = re.match(rf"({_NAME}) = (add|sub|mul) (?:nuw |nsw )*i64 ([^,]+), (.+)", ins)
        if m:
            a, b = self._val(m.group(3), env), self._val(m.group(4), env)
            env[m.group(1)] = {"add": a + b, "sub": a - b, "mul": a * b}[m.group(2)]
            return
        m = re.match(rf"({_NAME}) = icmp (\w+) i\d+ ([^,]+), (.+)", ins)
        if m:
            a, b = self._val(m.group(3), env), self._val(m.group(4), env)
            op = m.group(2)
            env[m.group(1)] = {"eq": a == b, "ne": a != b, "slt": a < b, "sgt": a > b, "sle": a <= b, "sge": a >= b, "ult": a < b, "ugt": a > b, "ule": a <= b, "uge": a >= b}[op]
            return
        m = re.match(rf"({_NAME}) = select i1 ({_NAME}), (\w+) ([^,]+), \w+ (.+)", ins)
        if m:
            c = self._val(m.group(2), env)
            env[m.group(1)] = self._val(m.group(4) if c else m.group(5), env, m.group(3))
            return
        m = re.match(rf"({_NAME}) = (?:sext|zext|trunc) i\d+ ([^ ]+) to i\d+", ins)
        if m:
            env[m.group(1)] = self._val(m.group(2), env)
            return
        m = re.match(rf"({_NAME}) = (?:tail )?call (?:[a-z]+ )*?(float|double) @(sqrtf|sqrt|llvm\.sqrt\.f32|llvm\.sqrt\.f64)\((?:float|double) (?:noundef )?([^)]+)\)", ins)
        if m:
            env[m.group(1)] = z3.fpSqrt(self.rm, self._val(m.group(4), env, m.group(2)))
            return
        m = re.match(rf"({_NAME}) = (?:tail )?call i8\* @shim_result_buffer\(i64 (?:noundef )?([^,]+), i64 (?:noundef )?([^)]+)\)", ins)
        if m:
            n = self._val(m.group(2), env)
            if n < 0:
                raise IRError("negative result size")
            self.mem["R"] = [None] * n
            self.writes["R"] = [0] * n
            env[m.group(1)] = Ptr("R", 0)
            return
        m = re.match(rf"({_NAME}) = bitcast [^ ]+ ({_NAME}) to ", ins)
        if m:
            env[m.group(1)] = self._val(m.group(2), env)
            return
        if re.match(r"(?:tail )?call void @llvm\.(lifetime|dbg)", ins):
            return
        m = re.match(rf"br i1 ({_NAME}|true|false), label %([\w.]+), label %([\w.]+)", ins)
        if m:
            c = self._val(m.group(1), env)
            return ("br", m.group(2) if c else m.group(3))
        m = re.match(r"br label %([\w.]+)", ins)
        if m:
            return ("br", m.group(1))
        m = re.match(r"ret void", ins)
        if m:
            return ("ret", None)
        m = re.match(rf"ret (\w+) (.+)", ins)
        if m:
            return ("ret", self._val(m.group(2), env, m.group(1)))
        raise IRError("unsupported instruction: " + ins)


def fp_equal(a, b):
    """IEEE results agree: equal, or both NaN"""
    return z3.Or(a == b, z3.And(z3.fpIsNaN(a), z3.fpIsNaN(b)))


def decide(neg_goal, timeout_s=60):
    s = z3.Solver()
    s.set("timeout", int(timeout_s * 1000))
    s.add(neg_goal)
    t = time.time()
    r = str(s.check())
    return r, time.time() - t, (s.model() if r == "sat" else None)


NATIVE_MAIN = r"""
#include <cstdio>
#include <cstdlib>
#include <cstring>
#include <vector>
static void *g_res = nullptr; static ssize_t g_n = 0, g_sz = 0;
extern "C" void *shim_result_buffer(ssize_t n, ssize_t sz) { g_n = n; g_sz = sz; g_res = malloc((n > 0 ? n : 1) * sz); memset(g_res, 0xFF, (n > 0 ? n : 1) * sz); return g_res; }
template <class T> static int run(int rank, const char *fn, int argc, char **argv);
int main(int argc, char **argv) {
    // argv: <wrapper> <X> <L1> <L2> values of A ... values of B ...
    std::string w = argv[1]; ssize_t X = atol(argv[2]), L1 = atol(argv[3]), L2 = atol(argv[4]);
    bool dbl = w.back() == 'd'; bool r32 = w.substr(0, 3) == "w32";
    ssize_t na = (r32 ? X : 1) * L1 * 3, nb = L2 * 3;
    std::vector<double> av(na), bv(nb);
    for (ssize_t i = 0; i < na; i++) av[i] = strtod(argv[5 + i], nullptr);
    for (ssize_t i = 0; i < nb; i++) bv[i] = strtod(argv[5 + na + i], nullptr);
    std::vector<float> af(av.begin(), av.end()), bf(bv.begin(), bv.end());
    #define CALL22(N, T, AV, BV) if (w == #N) N(AV.data(), L1, BV.data(), L2);
    #define CALL32(N, T, AV, BV) if (w == #N) N(AV.data(), X, L1, BV.data(), L2);
    CALL22(w22_eu_f, float, af, bf) CALL22(w22_eu2_f, float, af, bf) CALL22(w22_eu_d, double, av, bv) CALL22(w22_eu2_d, double, av, bv)
    CALL32(w32_eu_f, float, af, bf) CALL32(w32_eu2_f, float, af, bf) CALL32(w32_eu_d, double, av, bv) CALL32(w32_eu2_d, double, av, bv)
    printf("%ld\n", (long) g_n);
    for (ssize_t i = 0; i < g_n; i++) { if (dbl) printf("%.17g\n", ((double *) g_res)[i]); else printf("%.9g\n", (double) ((float *) g_res)[i]); }
    return 0;
}
"""


def native_run(driver_src: str, wrapper: str, X: int, L1: int, L2: int, a, b, repo="/repo"):
    """replay on real code: the same driver compiled to a native executable by the real compiler and run on concrete inputs.
    Returns the list of result cells (NaN = 0xFF.. pattern = never written)."""
    d = tempfile.mkdtemp(prefix="irfp_native_")
    try:
        with open(os.path.join(d, "drv.cpp"), "w") as f:
            f.write("#include <string>\n" + driver_src + NATIVE_MAIN)
        exe = os.path.join(d, "drv")
        p = subprocess.run(["clang++-14", "-O1", "-std=c++17", f"-I{SHIM}", f"-I{repo}/molli_xt", "-o", exe, os.path.join(d, "drv.cpp")], capture_output=True, text=True)
        if p.returncode != 0:
            raise IRError("native build failed: " + p.stderr[-1500:])
        r = subprocess.run([exe, wrapper, str(X), str(L1), str(L2)] + [repr(float(v)) for v in list(a) + list(b)], capture_output=True, text=True, timeout=60)
        if r.returncode != 0:
            raise IRError(f"native run exit {r.returncode}: {r.stderr[-500:]}")
        lines = r.stdout.split()
        return [float(x) for x in lines[1:1 + int(lines[0])]]
    finally:
        shutil.rmtree(d, ignore_errors=True)
