"""XH engine: run CrossHair obligations of a harness module in parallel worker processes, replay counterexamples."""
from __future__ import annotations
import json, os, re, subprocess, sys, time
from concurrent.futures import ThreadPoolExecutor
from .common import Obligation, Report, PY, ROOT, NCPU, known_predicates

CALL_RE = re.compile(r"when calling (.*?)(?: \(which (?:returns|raises).*\))?$", re.S)


def _run(args, env_extra, timeout):
    tgt = os.environ.get("VERIF_TARGET")
    env = dict(os.environ, PYTHONHASHSEED="0", PYTHONPATH=(tgt + ":" if tgt else "") + str(ROOT), **env_extra)
    t = time.time()
    try:
        p = subprocess.run([PY, "-u", "-m", "engine.xh_worker", *args], cwd=str(ROOT), env=env, capture_output=True, text=True, timeout=timeout)
    except subprocess.TimeoutExpired as e:
        return None, f"worker killed after {timeout}s", time.time() - t
    for line in p.stdout.splitlines()[::-1]:
        if line.startswith("@@RESULT "):
            return json.loads(line[9:]), p.stderr[-800:], time.time() - t
    return None, (p.stdout[-800:] + p.stderr[-1500:]), time.time() - t


def replay(modname: str, call: str, real: bool, split=None, env=None):
    """plain-python re-execution of a counterexample call; real=True asks the harness module to use the real environment"""
    env = dict(env or {}, XH_REPLAY="1")
    if real:
        env["XH_REAL"] = "1"
    if split is not None:
        env["XH_SPLIT"] = str(split)
    res, err, _ = _run(["replay", modname, call], env, 300)
    if res is None:
        return None, err
    return res, err


def run_obligations(rep: Report, modname: str, specs: list):
    """specs: dicts {fn, timeout, split(optional), ppt(optional)}.  Adds one Obligation per spec to the report."""
    mod = __import__(modname, fromlist=["x"])
    has_real = getattr(mod, "HAS_REAL", False)
    known = known_predicates(rep.prop)

    def one(spec):
        env = dict(spec.get("env") or {})
        if spec.get("split") is not None:
            env["XH_SPLIT"] = str(spec["split"])
        to = spec["timeout"]
        r = _run(["check", modname, spec["fn"], str(to), str(spec.get("ppt", to))], env, to * 2 + 120)
        if r[0] is None or not r[0].get("messages"):          # worker died or found no condition (e.g. the harness file changed under it): one retry
            r = _run(["check", modname, spec["fn"], str(to), str(spec.get("ppt", to))], env, to * 2 + 120)
        return spec, r

    with ThreadPoolExecutor(NCPU) as ex:
        results = list(ex.map(one, specs))
    for spec, (res, err, wall) in results:
        name = spec["fn"] + (f"[{spec['split']}]" if spec.get("split") is not None else "") + spec.get("tag", "")
        ob = rep.add(Obligation(name=name, engine="XH", solver_s=wall))
        if res is None:
            ob.status, ob.detail = "inconclusive", "worker failed: " + err
            continue
        ob.paths, ob.twin = res["paths"], res.get("twin", "")
        msgs = res["messages"]
        bad = [m for m in msgs if m["state"] in ("POST_FAIL", "EXEC_ERR", "POST_ERR")]
        if bad:
            m = bad[0]
            mm = CALL_RE.search(m["message"])
            ob.cex = mm.group(1) if mm else m["message"]
            ob.detail = m["message"]
            if not mm:
                ob.status = "inconclusive"
                continue
            r1, e1 = replay(modname, ob.cex, real=False, split=spec.get("split"), env=spec.get("env"))
            r2 = None
            if r1 is not None and not r1["ok"] and has_real:
                r2, e2 = replay(modname, ob.cex, real=True, split=spec.get("split"), env=spec.get("env"))
            final = r2 if (has_real and r1 is not None and not r1["ok"]) else r1
            if final is None:
                ob.status, ob.replay = "inconclusive", "replay worker failed: " + (e1 or "")
            elif final["ok"]:
                ob.status, ob.replay = "inconclusive", ("counterexample did not reproduce " + ("with the real environment (model artefact): " if has_real and r2 is not None else "in plain python (CrossHair artefact): ")) + json.dumps(final)[:300]
            else:
                ob.replay = "reproduced" + (" (real environment)" if has_real else " (plain python)")
                path = rep.write_replay({"engine": "XH", "module": modname, "call": ob.cex, "split": spec.get("split"), "env": spec.get("env"), "observed": final, "crosshair": m["message"]})
                ob.status = "violated"
                rep.violations.append((f"{name}: {m['message'][:300]} -> replay {final.get('raised') or final.get('returned')}", path))
        elif msgs and all(m["state"] == "CONFIRMED" for m in msgs):
            if ob.twin == "refuted":
                ob.status, ob.detail = "discharged", "Confirmed over all paths; reachability twin refuted"
            else:
                ob.status, ob.detail = "inconclusive", f"confirmed but reachability twin {ob.twin}"
        else:
            ob.status = "inconclusive"
            ob.detail = "; ".join(f"{m['state']}: {m['message'][:200]}" for m in msgs) or ("no condition found; " + (err or ""))
    return rep


def known_witness(rep: Report, modname: str):
    """replay the recorded input of each known finding; print KNOWN-FINDING while it still fails"""
    for pred, f in known_predicates(rep.prop).items():
        if f.get("engine", "XH") != "XH":
            continue
        mod = __import__(modname, fromlist=["x"])
        r, err = replay(modname, f["witness"], real=getattr(mod, "HAS_REAL", False), env={"XH_NO_KF": "1"})
        ob = rep.add(Obligation(name="known:" + pred, engine="XH", cex=f["witness"]))
        if r is None:
            ob.status, ob.detail = "inconclusive", "witness replay failed: " + (err or "")
        elif not r["ok"]:
            ob.status, ob.detail = "known", f["what"]
            rep.known_hits.append(f"{f['what']} [witness {f['witness']}]")
        else:
            ob.status, ob.detail = "discharged", "recorded witness no longer fails"
            ob.twin = "n/a"
