import os, tempfile, warnings, io, traceback
os.environ["MOLLI_HOME"]=tempfile.mkdtemp()
warnings.filterwarnings("ignore")
import numpy as np, molli as ml
from molli.chem import Atom, Molecule, Structure, Bond, Element, AtomType, ConformerEnsemble, CartesianGeometry
from molli.storage.ukvfile import UKVFile
from molli.storage.backends import UkvCollectionBackend
td=tempfile.mkdtemp()
def t(name, f):
    try: print(f"{name}: {f()}")
    except Exception as e: print(f"{name}: EXC {type(e).__name__}: {e}")
def torn():
    p=f"{td}/a.ukv"
    with UKVFile(p,"w") as f: f.put(b"k1",b"v1")
    with UKVFile(p,"a") as f: f.put(b"k2",b"value2")
    d=open(p,"rb").read(); open(p,"wb").write(d[:-3])
    with UKVFile(p,"r") as f: return {k:f.get(k) for k in f.keys()}
t("C03 torn", torn)
def oversize():
    p=f"{td}/b.ukv"
    f=UKVFile(p,"w")
    try: f.put(b"k"*256,b"v")
    except Exception as e: r=type(e).__name__
    return r, len(f.keys())
t("C02 oversize", oversize)
def buffered():
    b=UkvCollectionBackend(f"{td}/c.ukv",readonly=False,bufsize=1000)
    with b.writing():
        b.put("a",b"1"); return b.keys(), b.get("a")
t("C02 buffered", buffered)
def lockrel():
    b=UkvCollectionBackend(f"{td}/d.ukv",readonly=False,bufsize=1000)
    try:
        with b.writing():
            b.put("a",b"1"); b.put("a",b"2")
    except Exception as e: r=type(e).__name__
    ok=b._lock.acquire_write_lock(timeout=0.2) if False else None
    b2=UkvCollectionBackend(f"{td}/d.ukv",readonly=False)
    try:
        with b2.writing(timeout=0.3): got=True
    except Exception as e: got=type(e).__name__
    return r, got, b._ukvfile.closed
t("C04 lock after failed flush", lockrel)
def delelt():
    m=Molecule([Atom("H"),Atom("H"),Atom("H"),Atom("H"),Atom("H"),Atom("H"),Atom("C"),Atom("O")],coords=np.arange(24).reshape(8,3),atomic_charges=np.arange(8)/10)
    m.del_atom(Element.C)
    return [a.element.symbol for a in m.atoms], m.atomic_charges.tolist(), m.coords[:,0].tolist()
t("C05 del_atom(Element)", delelt)
def addnone():
    m=Molecule([Atom("C")],coords=[[0,0,0]]); m.add_atom(Atom("H"),[1,0,0]); return m.atomic_charges.dtype, m.atomic_charges
t("C05 add_atom default charge", addnone)
def copych():
    m=Molecule([Atom("C")],coords=[[0,0,0]],atomic_charges=[0.5]); return Molecule(m).atomic_charges
t("C06 copy charges", copych)
def evo():
    m=Molecule([Atom("C",attrib={"x":1})],coords=[[0,0,0]]); c=Molecule(m); c.atoms[0].attrib["x"]=2; return m.atoms[0].attrib
t("C06 attrib shared", evo)
t("C08 bohr", lambda: CartesianGeometry.loads_xyz("1\n\nH 1.0 0.0 0.0\n",source_units="Bohr").coords.tolist())
def dumpstream():
    m=Molecule([Atom("C")],coords=[[0,0,0]]); s=io.StringIO(); ml.dump(m,s,"xyz"); return s.getvalue()
t("C09 dump stream", dumpstream)
t("C09 loads_all", lambda: type(ml.loads_all("1\n\nH 1.0 0.0 0.0\n1\n\nH 2 0 0\n","xyz")))
t("C09 ens name", lambda: ml.loads("1\n\nH 1.0 0.0 0.0\n","xyz",otype="ensemble",name="zz").name)
def carry():
    a=Molecule([Atom("C"),Atom("H")],name="a",coords=[[0,0,0],[1,0,0]]); a.connect(0,1)
    b=Molecule([Atom("O"),Atom("H"),Atom("H")],name="b",coords=[[0,0,0],[1,0,0],[0,1,0]]); b.connect(0,1); b.connect(0,2)
    txt=a.dumps_mol2()+b.dumps_mol2()
    cut=txt.rindex("@<TRIPOS>BOND")
    r=Molecule.loads_all_mol2(txt[:cut])
    return [(x.name,x.n_atoms,x.n_bonds) for x in r]
t("C10 carry-over bonds", carry)
def frag(q,shift,name):
    s=Molecule([Atom("C"),Atom("H"),Atom(Element.Unknown,atype=AtomType.AttachmentPoint)],charge=q,name=name,coords=np.array([[0,0,0],[0,1.0,0],[1.0,0,0]])+shift)
    s.connect(0,1); s.connect(0,2); return s
t("C12 join charge override 0", lambda: Molecule.join(frag(1,0,"a"),frag(0,5,"b"),2,2,charge=0).charge)
def joinrand():
    np.random.seed(1); r1=Molecule.join(frag(0,0,"a"),frag(0,5,"b"),2,2).coords.copy()
    np.random.seed(2); r2=Molecule.join(frag(0,0,"a"),frag(0,5,"b"),2,2).coords.copy()
    return float(np.abs(r1-r2).max())
t("C12 join depends on RNG (parallel AP vectors)", joinrand)
def ensapp():
    e=ConformerEnsemble([Atom("C")],n_conformers=1); e.append(CartesianGeometry(n_atoms=1)); return e._coords.shape,e._weights.shape,e._atomic_charges.shape
t("C14 append", ensapp)
def nested():
    e=ConformerEnsemble([Atom("C")],n_conformers=3); return [(a._conf_id,b._conf_id) for a in e for b in e]
t("C14 nested iter", nested)
def hadd():
    m=Molecule([Atom("C")],coords=[[0,0,0]]); m.add_implicit_hydrogens(); n1=m.n_atoms
    w=Molecule([Atom("O")],coords=[[0,0,0]]); w.add_implicit_hydrogens(); return n1, w.n_atoms, w.coords.tolist()
t("C16 lone atoms", hadd)
def jobget():
    from molli.pipeline.job import Job
    class D:
        def __init__(s,exe,n): s.executable=exe; s.nprocs=n; s.envars=None; s.memory=None
        j=Job(lambda self,x: (self.executable,self.nprocs))
    d1=D("exe1",2); d2=D("exe2",8)
    a=d1.j; r1=(a.executable,a.nprocs); b=d2.j; r2=(b.executable,b.nprocs); return r1,r2
t("C17 Job.__get__", jobget)
def nai():
    from molli.descriptor.gridbased import nearest_atom_index
    g=CartesianGeometry(n_atoms=1,coords=[[0,0,0]]); return nearest_atom_index(np.array([[2.5,0,0.]]),g,max_dist=3.0)
t("C19 nearest_atom_index max_dist", nai)
def fixedpt():
    a=Atom("Sn",atype=AtomType.sp3d,geom=ml.AtomGeom.R3_Planar); t1=a.get_mol2_type(); b=Atom(); b.set_mol2_type(t1); return t1,b.get_mol2_type()
t("C07 type fixed point", fixedpt)
def v1ens():
    from molli.chem import io as mio
    e=ConformerEnsemble([Atom("C"),Atom("H")],n_conformers=2,coords=np.arange(12).reshape(2,2,3),atomic_charges=[[.1,.2],[.3,.4]])
    import msgpack
    r=mio._deserialize_ens_v1(msgpack.loads(msgpack.dumps(mio._serialize_ens_v1(e),use_single_float=True),use_list=False)); return r.atomic_charges.tolist()
t("C01 v1 ensemble 2 conf", v1ens)
