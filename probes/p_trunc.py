import molli as ml, numpy as np
from molli.chem import Atom, Molecule

class RStream:
    def __init__(self, text):
        self.lines = text.split("\n"); self.i = 0; self.budget = 10 * len(self.lines) + 50
        if self.lines and self.lines[-1] == "": self.lines.pop(); self.term = True
        else: self.term = False
    def __iter__(self): return self
    def __next__(self):
        self.budget -= 1
        assert self.budget > 0, "non-termination"
        if self.i >= len(self.lines): raise StopIteration
        l = self.lines[self.i]; self.i += 1
        return l + ("\n" if (self.i < len(self.lines) or self.term) else "")

def build():
    a = Molecule([Atom("C"), Atom("H")], name="a", coords=[[0, 0, 0], [1, 0, 0]], atomic_charges=[0.1, -0.1]); a.connect(0, 1)
    b = Molecule([Atom("O"), Atom("H"), Atom("H")], name="b", coords=[[0, 0, 0], [1, 0, 0], [0, 1, 0]], atomic_charges=[-0.5, 0.25, 0.25])
    b.connect(0, 1); b.connect(0, 2)
    return [a, b], a.dumps_mol2() + b.dumps_mol2()
REF, TEXT = build()
N = len(TEXT)
def sig(m): return (m.name, [x.element.symbol for x in m.atoms], sorted((m.atoms.index(b.a1), m.atoms.index(b.a2)) for b in m.bonds), np.round(m.coords, 5).tolist())
REFSIG = [sig(m) for m in REF]

def trunc(cut: int) -> bool:
    """
    pre: 0 <= cut <= N
    post: _
    """
    c = 0
    for k in range(N + 1):
        if cut == k: c = k
    text = TEXT[:c]
    try:
        res = list(Molecule.yield_from_mol2(RStream(text)))
    except AssertionError:
        raise
    except Exception:
        return True
    if len(res) > len(REF): return False
    for i, m in enumerate(res):
        if sig(m)[:3] != REFSIG[i][:3]: return False
    return True
