import shapenp
import molli as ml
import molli.chem.ensemble as E, molli.chem.geometry as G, molli.chem.molecule as M
from molli.chem import Atom, ConformerEnsemble, Molecule, CartesianGeometry
E.np = shapenp; G.np = shapenp; M.np = shapenp

def rect(ens):
    nc = ens._coords.shape[0]; na = ens.n_atoms
    return (tuple(ens._coords.shape) == (nc, na, 3) and tuple(ens._atomic_charges.shape) == (nc, na)
            and tuple(ens._weights.shape) == (nc,))

def append_keeps_rect(nc: int, na: int) -> bool:
    """
    pre: 0 <= nc <= 3 and 0 <= na <= 3
    post: _
    """
    na_c = 0
    for c in range(4):
        if na == c: na_c = c
    ens = ConformerEnsemble([Atom("C") for _ in range(na_c)], n_conformers=nc)
    assert rect(ens)
    g = CartesianGeometry(n_atoms=na_c)
    ens.append(g)
    ok = rect(ens)
    # every conformer view is usable
    for i in range(3 + 1):
        if i < ens.n_conformers:
            cf = ens[i]
            _ = cf.coords; _ = cf.atomic_charges
    return ok
