import molli as ml
import numpy as np
from molli.chem import Atom, AtomType, Element, Structure, Molecule, Bond
from typing import Optional

def frag(q, m, shift):
    s = Molecule([Atom("C"), Atom("H"), Atom(Element.Unknown, atype=AtomType.AttachmentPoint)], charge=q, mult=m,
                 coords=np.array([[0,0,0],[0,1.0,0],[1.0,0,0]])+shift)
    s.connect(0,1); s.connect(0,2)
    return s

def join_charge(qa: int, qb: int, ma: int, mb: int, q: Optional[int], m: Optional[int]) -> bool:
    """
    pre: -3 <= qa <= 3 and -3 <= qb <= 3 and 1 <= ma <= 4 and 1 <= mb <= 4
    pre: q is None or -3 <= q <= 3
    pre: m is None or 1 <= m <= 4
    post: _
    """
    A = frag(qa, ma, 0.0); B = frag(qb, mb, 5.0)
    R = Molecule.join(A, B, 2, 2, charge=q, mult=m)
    eq = qa + qb if q is None else q
    em = ma + mb - 1 if m is None else m
    return R.charge == eq and R.mult == em
