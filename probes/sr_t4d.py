from sr_t4 import *
import inspect, textwrap, molli.chem.structure as S
src = textwrap.dedent(inspect.getsource(S.Structure.rotate_dihedral)).replace("rotation_angle = target_angle - dihedral","rotation_angle = dihedral - target_angle")
ns = dict(S.__dict__); exec(src, ns); S.Structure.rotate_dihedral = ns["rotate_dihedral"]
def work3(i,q):
    res = explore(goals); dec,cons,gs = res[0]
    s=z3.SolverFor("QF_NRA"); s.add(cons); s.add(gs[i][1]); t=time.time(); r=s.check(); q.put((gs[i][0],str(r),round(time.time()-t,1)))
if __name__=="__main__":
    ps=[]
    for i in range(2):
        q=mp.Queue(); p=mp.Process(target=work3,args=(i,q)); p.start(); ps.append((p,q))
    for p,q in ps:
        p.join(int(sys.argv[1]))
        if p.is_alive(): p.kill(); print("TIMEOUT (hard kill)")
        else: print(q.get())
