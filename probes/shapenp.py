"""shape-level numpy model: arrays are just shapes (ints may be symbolic)"""
nan = float("nan"); newaxis = None
class SA:
    def __init__(self, shape): self.shape = tuple(shape)
    @property
    def ndim(self): return len(self.shape)
    def __len__(self): return self.shape[0]
    def _bc(self, other):
        o = shape_of(other)
        a = list(self.shape); b = list(o)
        if len(b) > len(a): raise ValueError("could not broadcast")
        b = [1] * (len(a) - len(b)) + b
        for x, y in zip(a, b):
            if not (x == y or y == 1): raise ValueError(f"could not broadcast input array from shape {o} into shape {self.shape}")
    def __setitem__(self, key, val):
        self[key]._bc(val)
    def __getitem__(self, key):
        if not isinstance(key, tuple): key = (key,)
        shp = []; dims = list(self.shape); di = 0
        for k in key:
            if k is None: shp.append(1)
            elif isinstance(k, slice):
                assert k == slice(None); shp.append(dims[di]); di += 1
            else:
                n = dims[di]
                if not (-n <= k < n): raise IndexError("index out of bounds")
                di += 1
        shp.extend(dims[di:])
        return SA(shp)
    def _bin(self, o):
        a = list(self.shape); b = list(shape_of(o))
        n = max(len(a), len(b)); a = [1] * (n - len(a)) + a; b = [1] * (n - len(b)) + b
        out = []
        for x, y in zip(a, b):
            if x == y or y == 1: out.append(x)
            elif x == 1: out.append(y)
            else: raise ValueError("operands could not be broadcast together")
        return SA(out)
    __add__ = __sub__ = __mul__ = __radd__ = __rmul__ = _bin
    def __iadd__(self, o): self._bc(o); return self
    __imul__ = __isub__ = __iadd__
    def __matmul__(self, o):
        b = shape_of(o)
        if self.shape[-1] != b[-2]: raise ValueError("matmul mismatch")
        return SA(self.shape[:-1] + (b[-1],))
    def astype(self, t): return SA(self.shape)
def shape_of(x):
    if isinstance(x, SA): return x.shape
    if isinstance(x, (int, float)): return ()
    if isinstance(x, (list, tuple)):
        if len(x) == 0: return (0,)
        s0 = shape_of(x[0])
        for y in x[1:]:
            if shape_of(y) != s0: raise ValueError("inhomogeneous")
        return (len(x),) + tuple(s0)
    raise TypeError(type(x))
def full(shape, v=None, dtype=None): return SA(shape)
def zeros(shape, dtype=None): return SA(shape if isinstance(shape, tuple) else (shape,))
def ones(shape, dtype=None): return SA(shape if isinstance(shape, tuple) else (shape,))
empty = zeros
def array(x, dtype=None): return SA(shape_of(x))
def append(a, b, axis=None):
    sa, sb = shape_of(a), shape_of(b)
    assert axis == 0
    if len(sa) != len(sb) or tuple(sa[1:]) != tuple(sb[1:]): raise ValueError("all the input array dimensions except for the concatenation axis must match exactly")
    return SA((sa[0] + sb[0],) + tuple(sa[1:]))
ndarray = SA
