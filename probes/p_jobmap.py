import types
from contextlib import contextmanager
import molli.pipeline.job as J
from molli.pipeline.job import Job, JobInput, JobOutput

class World: pass
W = None
class FPath:
    def __init__(self, p): self.p = str(p)
    def __truediv__(self, o): return FPath(self.p.rstrip("/") + "/" + (o.p if isinstance(o, FPath) else str(o)) if not str(o).startswith("/") else str(o))
    def __str__(self): return self.p
    def absolute(self): return self if self.p.startswith("/") else FPath("/cwd/" + self.p)
    def mkdir(self, **k): pass
    def is_file(self): return self.p in W.files
    def as_posix(self): return self.p
    @property
    def stem(self): return self.p.rsplit("/", 1)[-1].rsplit(".", 1)[0]
class NullF:
    def __enter__(self): return self
    def __exit__(self, *a): return False
    def write(self, s): pass
class NullLog:
    def __getattr__(self, n): return lambda *a, **k: None
class FLogging:
    @staticmethod
    def getLogger(n=None): return NullLog()
    @staticmethod
    def FileHandler(f): return None
def ftqdm(it=None, *a, **k):
    class T:
        def __init__(s, it): s.it = it
        def __iter__(s): return iter(s.it)
        def write(s, m): pass
    return T(it)
class Fut:
    def __init__(s, r): s.r = r
    def result(s): return s.r
class InlineExec:
    def __init__(s, *a, **k): pass
    def __enter__(s): return s
    def __exit__(s, *a): return False
    def submit(s, f, *a): return Fut(f(*a))
class Proc:
    def __init__(s, rc): s.returncode = rc
class Coll:
    def __init__(s, name, d): s._path = FPath(name); s.d = dict(d); s.mode = None
    @contextmanager
    def reading(s): yield s
    @contextmanager
    def writing(s): yield s
    def keys(s): return set(s.d)
    def __getitem__(s, k): return s.d[k]
    def __setitem__(s, k, v): s.d[k] = v

def install():
    J.Path = FPath; J.open = lambda *a, **k: NullF(); J.logging = FLogging; J.tqdm = ftqdm; J.ThreadPoolExecutor = InlineExec
    def load(fn): return W.files[str(fn)]
    J.JobOutput.load = staticmethod(load)
    def dump(self, fn): W.files[str(fn)] = self
    J.JobInput.dump = dump
    def run_local(ifn, cwd, odir, sdir):
        inp = W.files[str(ifn)]
        key = str(ifn).rsplit("/", 1)[-1][:-4]
        W.execs.append(key)
        outcome = W.script.get(key, "ok")
        if outcome == "ok":
            W.files[str(odir / f"{key}.out")] = JobOutput(exitcode=0, files={"r": b"res:" + key.encode()}, input_hash=inp.hash)
            return Proc(0)
        elif outcome == "fail":
            W.files[str(odir / f"{key}.out")] = JobOutput(exitcode=1, files={}, input_hash=inp.hash)
            return Proc(1)
        return Proc(1)
    J._run_local = run_local

class JI(JobInput):
    @property
    def hash(self): return "H:" + self.jid + ":" + self.commands[0][0]

def make_job(arg):
    j = Job(return_files=("r",))
    @j.prep
    def p(self, obj, *a, **k): return JI(obj, commands=[(f"cmd {arg}", "n")], return_files=("r",))
    @j.post
    def q(self, out, obj, *a, **k):
        return out.files["r"]
    return j

def conc(x, n):
    for c in range(n):
        if x == c: return c
    return 0

def jm(in_dest: bool, cache: int, outcome: int, dest_only: bool, strict: bool) -> bool:
    """
    pre: 0 <= cache <= 3 and 0 <= outcome <= 1
    post: _
    """
    global W
    W = World(); W.files = {}; W.execs = []; W.script = {}
    install()
    cache = conc(cache, 4); outcome = conc(outcome, 2)
    src = Coll("src.mlib", {"a": "a", "b": "b"})
    dst = Coll("dst.mlib", ({"a": b"old"} if in_dest else {}) | ({"z": b"zz"} if dest_only else {}))
    job = make_job("x")
    cd = "/cache"
    if cache == 1: W.files[f"{cd}/output/a.out"] = JobOutput(exitcode=0, files={"r": b"cached"}, input_hash="H:a:cmd x")
    if cache == 2: W.files[f"{cd}/output/a.out"] = JobOutput(exitcode=0, files={"r": b"cached"}, input_hash="H:a:cmd OTHER")
    if cache == 3: W.files[f"{cd}/output/a.out"] = JobOutput(exitcode=1, files={}, input_hash="H:a:cmd x")
    W.script["a"] = ["ok", "fail"][outcome]
    J.jobmap(job, src, dst, cache_dir=cd, scratch_dir="/scr", strict_hash=True if strict else False)
    exp_exec_a = (not in_dest) and not (cache == 1 or (cache == 2 and not strict))
    ok = (("a" in W.execs) == exp_exec_a) and ("b" in W.execs) and dst.d.get("z", None) == (b"zz" if dest_only else None)
    if in_dest: ok = ok and dst.d["a"] == b"old"
    elif cache == 1 or (cache == 2 and not strict): ok = ok and dst.d.get("a") == b"cached"
    elif outcome == 0: ok = ok and dst.d.get("a") == b"res:a"
    else: ok = ok and "a" not in dst.d
    return ok and dst.d.get("b") == b"res:b"
