import z3, time
R=z3.Real
an=[R(f'a{i}') for i in range(3)]; on=[R(f'o{i}') for i in range(3)]; bn=[R(f'b{i}') for i in range(3)]
dot=lambda x,y: sum(x[i]*y[i] for i in range(3))
tol=z3.RealVal("1/100000000")
cons=[dot(an,an)==1,dot(bn,bn)==1,dot(on,on)==1,dot(on,bn)==0,dot(an,bn)<=-1+tol]
s=z3.SolverFor("QF_NRA"); s.add(cons); s.add(dot(an,on)<=-1+tol); t=time.time(); print("e1",s.check(),round(time.time()-t,2))
s=z3.SolverFor("QF_NRA"); s.add(cons); s.add(dot(on,bn)<=-1+tol); t=time.time(); print("e2",s.check(),round(time.time()-t,2))
