import sr, z3, numpy as np, sys, time
from sr import *
from molli.chem import Structure, Atom, AtomType, Element
import molli.math.rotation as rot
import molli.chem.structure as S
rot.math = sr.mathshim
class SymStructure(Structure, coords_dtype=object): pass
def frag(tag):
    C = np.array([[SR(z3.Real(f"{tag}{i}{k}")) for k in range(3)] for i in range(3)], dtype=object)
    s = SymStructure([Atom("C"),Atom("H"),Atom(Element.Unknown,atype=AtomType.AttachmentPoint)], coords=C)
    s.connect(0,1); s.connect(0,2)
    return s
CALLS=[]
def rmfv_contract(u, v, tol=1e-8):
    """contract of rotation_matrix_from_vectors: proper rotation (axis-angle parametrised) with un @ M == vn"""
    u=np.array(u); v=np.array(v)
    k = vec(f"k{len(CALLS)}"); CTX.cons.append((k@k).e > 0)
    M = rot.rotation_matrix_from_axis(k, sym_angle(f"phi{len(CALLS)}"))
    un = u/np.linalg.norm(u); vn = v/np.linalg.norm(v)
    img = un @ M
    for j in range(3): CTX.cons.append(img[j].e == vn[j].e)
    CALLS.append((u,v,M))
    return M
S.rotation_matrix_from_vectors = rmfv_contract
def goals():
    CALLS.clear()
    A=frag("a"); B=frag("b")
    d = SR(z3.Real("dist")); CTX.cons.append(d.e > 0)
    v1 = A.coords[2]-A.coords[0]; v2 = B.coords[2]-B.coords[0]
    CTX.cons += [(v1@v1).e > 0, (v2@v2).e > 0]
    R = SymStructure.join(A,B,2,2,dist=d)
    c = R.coords   # atoms: A0,A1,B0,B1
    nb = c[2]-c[0]
    g=[("bondlen", (nb@nb).e != (d*d).e)]
    # direction along v1: nb x v1 == 0 and nb.v1 > 0
    cr = np.cross(nb, v1)
    g += [(f"dir{j}", cr[j].e != 0) for j in range(3)] + [("dirpos", (nb@v1).e <= 0)]
    # fragment A pure translation; B rigid
    dA0 = A.coords[1]-A.coords[0]; dA1 = c[1]-c[0]
    g += [(f"Atrans{j}", dA0[j].e != dA1[j].e) for j in range(3)]
    dB0 = B.coords[1]-B.coords[0]; dB1 = c[3]-c[2]
    g.append(("Brigid", (dB0@dB0).e != (dB1@dB1).e))
    return g
res = explore(goals)
for dec,cons,gs in res:
    print("path",dec,"ncons",len(cons))
    s=z3.SolverFor("QF_NRA"); s.add(cons); print("vacuity:", s.check())
    for n,g in gs: prove(cons,n,g,60)
