import envstubs
FS0 = envstubs.install()
from molli.storage.backends import UkvCollectionBackend
import envstubs as E

def fresh():
    E.FakePath.fs = E.FS(); E.RWLock.registry = {}

def listed_keys_readable(bufsize: int, v1: bytes, v2: bytes) -> bool:
    """
    pre: -1 <= bufsize <= 64
    pre: len(v1) <= 3 and len(v2) <= 3
    post: _
    """
    fresh()
    b = UkvCollectionBackend("lib", readonly=False, bufsize=bufsize)
    with b.writing():
        b.put("a", v1)
        b.put("b", v2)
        ok = all(b.get(k) is not None for k in b.keys())
    return ok

def lock_released_after_failed_session(dup: bool, v: bytes) -> bool:
    """
    pre: len(v) <= 2
    post: _
    """
    fresh()
    b = UkvCollectionBackend("lib", readonly=False, bufsize=1000)
    try:
        with b.writing():
            b.put("a", v)
            if dup: b.put("a", v)
    except Exception:
        pass
    st = E.RWLock.registry["lib"]
    return st["w"] == 0 and st["r"] == 0 and b._ukvfile.closed
