import sr, z3, numpy as np
from sr import *
import molli as ml
from molli.chem import Structure, Atom, CartesianGeometry
import molli.math.rotation as rot
rot.math = sr.mathshim

class SymStructure(Structure, coords_dtype=object): pass

def mk(n, bonds):
    s = SymStructure([Atom("C") for _ in range(n)], coords=np.array([[SR(z3.Real(f"p{i}{k}")) for k in range(3)] for i in range(n)], dtype=object))
    for a,b in bonds: s.connect(a,b)
    return s

print("== transform with orthogonal R: distances & signed volume")
def t_transform():
    s = mk(4, [(0,1),(1,2),(2,3)])
    before = s.coords.copy()
    R = mat("R",3,3)
    RRt = R @ R.T
    for i in range(3):
        for j in range(i,3):
            CTX.cons.append(RRt[i,j].e == (1 if i==j else 0))
    CTX.cons.append(det3(R).e == 1)
    s.transform(R)
    after = s.coords
    goals=[]
    d0 = before[0]-before[1]; d1 = after[0]-after[1]
    goals.append(("dist01", (d0@d0).e != (d1@d1).e))
    def vol(c): 
        a=c[1]-c[0]; b=c[2]-c[0]; d=c[3]-c[0]
        return a@np.cross(b,d)
    goals.append(("volume", vol(before).e != vol(after).e))
    return goals
for dec,cons,goals in explore(t_transform):
    print(" path",dec)
    for n,g in goals: prove(cons,n,g,60)

print("== translate: distances")
def t_translate():
    s = mk(3, [(0,1),(1,2)])
    before = s.coords.copy()
    s.translate(vec("t"))
    after = s.coords
    d0 = before[0]-before[2]; d1 = after[0]-after[2]
    return [("dist02",(d0@d0).e != (d1@d1).e), ("moved", after[1][0].e != before[1][0].e + z3.Real("t0"))]
for dec,cons,goals in explore(t_translate):
    for n,g in goals: prove(cons,n,g,60)

print("== substructure edit moves exactly the selected atoms")
def t_sub():
    s = mk(4, [(0,1),(1,2),(2,3)])
    before = s.coords.copy()
    sub = s.substructure([2,3])
    sub.translate(vec("t"))
    after = s.coords
    return [("unmoved0", after[0][1].e != before[0][1].e), ("unmoved1", after[1][2].e != before[1][2].e), ("moved3", after[3][2].e != before[3][2].e + z3.Real("t2"))]
for dec,cons,goals in explore(t_sub):
    for n,g in goals: prove(cons,n,g,60)
