import z3, numpy as np, time, sys, types
from fractions import Fraction
class Ctx:
    def __init__(self): self.cons=[]; self.n=0; self.rc={}; self.decisions=[]; self.pos=0
    def fresh(self,p): self.n+=1; return z3.Real(f'{p}!{self.n}')
CTX=Ctx()
def lift(x):
    if isinstance(x,SR): return x.e
    if isinstance(x,(int,np.integer)): return z3.RealVal(int(x))
    if isinstance(x,(float,np.floating)):
        f=Fraction(float(x)); return z3.RealVal(f"{f.numerator}/{f.denominator}")
    raise TypeError(type(x))
class SR:
    def __init__(s,e): s.e=e
    def __add__(s,o): 
        if isinstance(o,np.ndarray): return NotImplemented
        return SR(s.e+lift(o))
    __radd__=__add__
    def __sub__(s,o): 
        if isinstance(o,np.ndarray): return NotImplemented
        return SR(s.e-lift(o))
    def __rsub__(s,o): 
        if isinstance(o,np.ndarray): return NotImplemented
        return SR(lift(o)-s.e)
    def __mul__(s,o): 
        if isinstance(o,np.ndarray): return NotImplemented
        return SR(s.e*lift(o))
    __rmul__=__mul__
    def __neg__(s): return SR(-s.e)
    def __truediv__(s,o):
        d=z3.simplify(lift(o)); key='rcp'+d.sexpr()
        if key not in CTX.rc:
            r=CTX.fresh('rcp'); CTX.cons.append(r*d==1); CTX.rc[key]=r
        return SR(s.e*CTX.rc[key])
    def __rtruediv__(s,o): return SR(lift(o)).__truediv__(s)
    def sqrt(s):
        e=z3.simplify(s.e); key='sqrt'+e.sexpr()
        if key not in CTX.rc:
            r=CTX.fresh('sqrt'); CTX.cons += [r>=0, r*r==e]; CTX.rc[key]=r
        return SR(CTX.rc[key])
class Angle:
    def __init__(s,c,sn): s.c=c; s.s=sn
mathshim=types.SimpleNamespace(sin=lambda a:a.s, cos=lambda a:a.c)
import molli.math.rotation as rot
rot.math=mathshim
def vec(name): return np.array([SR(z3.Real(f'{name}{i}')) for i in range(3)],dtype=object)
ax=vec('k'); c=z3.Real('c'); s=z3.Real('s')
CTX.cons += [ (ax@ax).e>0, c*c+s*s==1 ]
R=rot.rotation_matrix_from_axis(ax, Angle(SR(c),SR(s)))
print(R.shape, len(CTX.cons))
def prove(name, neg):
    sol=z3.SolverFor('QF_NRA'); sol.set('timeout',60000); sol.add(CTX.cons); sol.add(neg)
    t=time.time(); r=sol.check(); print(name, r, round(time.time()-t,2), flush=True)
RRt=R@R.T
for i in range(3):
    for j in range(i,3):
        prove(f'orth{i}{j}', RRt[i,j].e!=(1 if i==j else 0))
fx=ax@R
for j in range(3): prove(f'axisfixed{j}', fx[j].e!=ax[j].e)
tr=R[0,0]+R[1,1]+R[2,2]
prove('trace', tr.e!=1+2*c)
det=(R[0,0]*(R[1,1]*R[2,2]-R[1,2]*R[2,1])-R[0,1]*(R[1,0]*R[2,2]-R[1,2]*R[2,0])+R[0,2]*(R[1,0]*R[2,1]-R[1,1]*R[2,0]))
prove('det', det.e!=1)
sol=z3.SolverFor('QF_NRA'); sol.add(CTX.cons); print('vacuity (must be sat):', sol.check())
prove('wrongtrace(sat expected)', tr.e!=1+c)
prove('wrong-axis-neg(sat expected)', fx[0].e!=-ax[0].e)
print(CTX.cons)
