from molli.storage.ukvfile import UKVFile, _FILE_HEADER, _BLOCK_HEADER, UKVRecord
import molli.storage.ukvfile as U

class PyStruct:
    """pure-python big-endian struct for the two formats UKV uses"""
    def __init__(self, fmt):
        self.fmt = fmt
        self.size = {b">16sHI10x": 32, b">BI": 5}[fmt]
    def pack(self, *args):
        if self.fmt == b">BI":
            k, n = args
            if not (0 <= k <= 255 and 0 <= n < 2**32):
                raise ValueError("struct.error")
            return bytes([k]) + n.to_bytes(4, "big")
        h1, a, b = args
        if not (0 <= a < 65536 and 0 <= b < 2**32):
            raise ValueError("struct.error")
        h1 = (h1 + b"\0" * 16)[:16]
        return h1 + a.to_bytes(2, "big") + b.to_bytes(4, "big") + b"\0" * 10
    def unpack(self, buf):
        if len(buf) != self.size:
            raise ValueError("struct.error")
        if self.fmt == b">BI":
            return (buf[0], int.from_bytes(buf[1:5], "big"))
        return (buf[:16], int.from_bytes(buf[16:18], "big"), int.from_bytes(buf[18:22], "big"))

class MemStream:
    def __init__(self, data: bytes, writable=True):
        self.data = data; self.pos = 0; self._w = writable; self.closed=False
    def writable(self): return self._w
    def seek(self, off, whence=0):
        if whence == 0: self.pos = off
        elif whence == 1: self.pos += off
        else: self.pos = len(self.data) + off
        return self.pos
    def tell(self): return self.pos
    def read(self, n=-1):
        if n < 0: n = max(0, len(self.data) - self.pos)
        r = self.data[self.pos:self.pos + n]
        self.pos += len(r)
        return r
    def write(self, b):
        if self.pos > len(self.data):
            self.data = self.data + b"\0" * (self.pos - len(self.data))
        self.data = self.data[:self.pos] + b + self.data[self.pos + len(b):]
        self.pos += len(b)
        return len(b)
    def close(self): self.closed=True

def mk(data, mode):
    f = UKVFile.__new__(UKVFile)
    f.path=None; f.mode=mode; f.h1=b""; f.h2=b""; f.b0=b""
    f._toc={}; f._last=None; f._eof=None; f._closed=False
    f._stream = MemStream(data, writable=(mode!='r'))
    return f

U._FILE_HEADER = PyStruct(b">16sHI10x")
U._BLOCK_HEADER = PyStruct(b">BI")

def put_get(key: bytes, val: bytes, key2: bytes, val2: bytes) -> bool:
    """
    pre: len(key) <= 2 and len(val) <= 2 and len(key2) <= 2 and len(val2) <= 2
    pre: key != key2
    post: _
    """
    f = mk(b"", "w")
    f.write_header()
    f.put(key, val); f.put(key2, val2)
    img = f._stream.data
    g = mk(img, "r")
    g.read_header(); g.map_blocks()
    return g.get(key) == val and g.get(key2) == val2 and set(g.keys()) == {key, key2}

def torn(key: bytes, val: bytes, cut: int) -> bool:
    """
    pre: 1 <= len(key) <= 2 and len(val) <= 3
    pre: 0 <= cut < 5 + len(key) + len(val)
    post: _
    """
    f = mk(b"", "w")
    f.write_header()
    base = len(f._stream.data)
    f.put(key, val)
    img = f._stream.data[: base + cut]
    g = mk(img, "r")
    g.read_header(); g.map_blocks()
    # torn record must not be visible
    return len(g.keys()) == 0
