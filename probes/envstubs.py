"""pure-python environment models: struct, binary file, fs, rw-lock"""
import re
class PyStruct:
    def __init__(self, fmt):
        if isinstance(fmt, bytes): fmt = fmt.decode()
        assert fmt[0] == '>'
        self.fields = []  # (kind, count)
        for m in re.finditer(r'(\d*)([sBHIx])', fmt[1:]):
            n = int(m.group(1) or 1); k = m.group(2)
            if k in 'sx': self.fields.append((k, n))
            else: self.fields.extend([(k, 1)] * n)
        w = {'B': 1, 'H': 2, 'I': 4}
        self.size = sum(n if k in 'sx' else w[k] for k, n in self.fields)
        self.format = fmt
    def pack(self, *args):
        w = {'B': 1, 'H': 2, 'I': 4}
        out = b''; args = list(args)
        for k, n in self.fields:
            if k == 'x': out += b'\0' * n
            elif k == 's':
                v = args.pop(0); out += (v + b'\0' * n)[:n]
            else:
                v = args.pop(0)
                if not (0 <= v < 256 ** w[k]): raise OverflowError('struct.error: out of range')
                out += v.to_bytes(w[k], 'big')
        if args: raise OverflowError('struct.error: too many args')
        return out
    def unpack(self, buf):
        if len(buf) != self.size: raise ValueError('struct.error: size')
        w = {'B': 1, 'H': 2, 'I': 4}
        res = []; p = 0
        for k, n in self.fields:
            if k == 'x': p += n
            elif k == 's': res.append(buf[p:p + n]); p += n
            else: res.append(int.from_bytes(buf[p:p + w[k]], 'big')); p += w[k]
        return tuple(res)

class FS:
    def __init__(self): self.files = {}
class MemStream:
    def __init__(self, fs, name, mode):
        self.fs = fs; self.name = name; self.mode = mode; self.pos = 0; self.closed = False
    @property
    def data(self): return self.fs.files[self.name]
    def writable(self): return self.mode != 'rb'
    def seek(self, off, whence=0):
        if whence == 0: self.pos = off
        elif whence == 1: self.pos += off
        else: self.pos = len(self.data) + off
        return self.pos
    def tell(self): return self.pos
    def read(self, n=-1):
        if self.closed: raise ValueError('closed')
        d = self.data
        if n is None or n < 0: n = max(0, len(d) - self.pos)
        r = d[self.pos:self.pos + n]; self.pos += len(r); return r
    def write(self, b):
        if self.closed: raise ValueError('closed')
        if not self.writable(): raise OSError('not writable')
        d = self.data
        if self.pos > len(d): d = d + b'\0' * (self.pos - len(d))
        self.fs.files[self.name] = d[:self.pos] + b + d[self.pos + len(b):]
        self.pos += len(b); return len(b)
    def truncate(self, n=None):
        n = self.pos if n is None else n
        self.fs.files[self.name] = self.data[:n]
    def close(self): self.closed = True
class FakePath:
    fs = None
    def __init__(self, p): self.p = p.p if isinstance(p, FakePath) else p
    def is_file(self): return self.p in self.fs.files
    def exists(self): return self.p in self.fs.files
    def as_posix(self): return self.p
    def resolve(self): return self
    def open(self, mode):
        if mode in ('rb', 'r+b'):
            if self.p not in self.fs.files: raise FileNotFoundError(self.p)
        elif mode == 'x+b':
            if self.p in self.fs.files: raise FileExistsError(self.p)
            self.fs.files[self.p] = b''
        elif mode == 'w+b': self.fs.files[self.p] = b''
        else: raise ValueError(mode)
        return MemStream(self.fs, self.p, mode)
class RWLock:
    """single-process model of fasteners.InterProcessReaderWriterLock bookkeeping"""
    registry = {}
    def __init__(self, key):
        self.st = RWLock.registry.setdefault(key, {'r': 0, 'w': 0})
    def acquire_read_lock(self, timeout=None):
        if self.st['w']: return False
        self.st['r'] += 1; return True
    def acquire_write_lock(self, timeout=None):
        if self.st['w'] or self.st['r']: return False
        self.st['w'] = 1; return True
    def release_read_lock(self): assert self.st['r'] > 0; self.st['r'] -= 1
    def release_write_lock(self): assert self.st['w'] == 1; self.st['w'] = 0
    from contextlib import contextmanager
    @contextmanager
    def write_lock(self):
        assert self.acquire_write_lock()
        try: yield
        finally: self.release_write_lock()
class AssocDict:
    def __init__(self): self.k = []; self.v = []
    def __contains__(self, key): return any(key == x for x in self.k)
    def __getitem__(self, key):
        for i, x in enumerate(self.k):
            if x == key: return self.v[i]
        raise KeyError(key)
    def __setitem__(self, key, val):
        for i, x in enumerate(self.k):
            if x == key: self.v[i] = val; return
        self.k.append(key); self.v.append(val)
    def keys(self): return list(self.k)
    def __len__(self): return len(self.k)
    def __iter__(self): return iter(list(self.k))

def install():
    import molli.storage.ukvfile as U, molli.storage.backends as B
    fs = FS(); FakePath.fs = fs; RWLock.registry = {}
    U._FILE_HEADER = PyStruct(U._FILE_HEADER.format if hasattr(U._FILE_HEADER,'format') else b'>16sHI10x')
    U._BLOCK_HEADER = PyStruct(U._BLOCK_HEADER.format)
    U.Path = FakePath; B.Path = FakePath
    B.InterProcessReaderWriterLock = RWLock
    B.rwlock = lambda p: FakePath(p).p
    class _AE:
        @staticmethod
        def register(f): pass
    B.atexit = _AE
    U.dict = AssocDict
    return fs
