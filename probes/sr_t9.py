import sr, z3, numpy as np, sys, time, types
from sr import *
import molli.math.rotation as rot
rot.math = sr.mathshim
ORIG = rot.rotation_matrix_from_vectors
class NPX:
    def __getattr__(self, n): return getattr(np, n)
    class random:
        @staticmethod
        def rand(n):
            v = vec("rv", n)
            for x in v: CTX.cons += [x.e >= 0, x.e < 1]
            return v
CALLS=[]
def contract_lin(u, v, tol=1e-8):
    u = np.array(u); v = np.array(v)
    un = u/np.linalg.norm(u); vn = v/np.linalg.norm(v)
    M = mat(f"M{len(CALLS)}_",3,3)
    img = un@M
    for j in range(3): CTX.cons.append(img[j].e == vn[j].e)
    CALLS.append((u,v,M))
    return M
def goals():
    CALLS.clear()
    rot.np = NPX(); rot.rotation_matrix_from_vectors = contract_lin
    try:
        a = vec("a"); b = vec("b")
        CTX.cons += [(a@a).e > 0, (b@b).e > 0]
        R = ORIG(a, b)
    finally:
        rot.np = np; rot.rotation_matrix_from_vectors = ORIG
    an = a/np.linalg.norm(a); bn = b/np.linalg.norm(b)
    out = an@R
    g = [(f"map{j}", out[j].e != bn[j].e) for j in range(3)]
    # structure: R == M0 @ M1 with calls (a, ort) and (ort, b)
    if len(CALLS)==2:
      P = CALLS[0][2] @ CALLS[1][2]
      g += [(f"struct{i}{j}", R[i,j].e != P[i,j].e) for i in range(3) for j in range(3)]
    return g
sr.FEAS_TIMEOUT = 30000
for dec,cons,gs in explore(goals, max_paths=8):
    print("path",dec,"ncons",len(cons), flush=True)
    if dec and dec[0]:
        for n,g in gs[:6]: prove_hard(cons,n,g,90)
