import z3, time, sys
R=z3.Real
mode=sys.argv[3]
dot=lambda x,y: sum(x[i]*y[i] for i in range(3))
base=[]
cnt=[0]
def fresh(p):
    cnt[0]+=1; return R(f'{p}{cnt[0]}')
def norm(x):
    n=fresh('n'); base.extend([n>0, n*n==dot(x,x)]); return n
rc={}
def div(a,b):
    key=b.sexpr() if hasattr(b,'sexpr') else str(b)
    if key not in rc:
        q=fresh('r'); base.append(q*b==1); rc[key]=q
    return a*rc[key]
if mode=='unit':
    a=[R(f'a{i}') for i in range(3)]; b=[R(f'b{i}') for i in range(3)]
    base+=[dot(a,a)==1, dot(b,b)==1]
elif mode=='scaled':
    ua=[R(f'ua{i}') for i in range(3)]; ub=[R(f'ub{i}') for i in range(3)]
    la=R('la'); lb=R('lb')
    base+=[dot(ua,ua)==1, dot(ub,ub)==1, la>0, lb>0]
    a=[la*x for x in ua]; b=[lb*x for x in ub]
else:
    a=[R(f'a{i}') for i in range(3)]; b=[R(f'b{i}') for i in range(3)]
    base+=[dot(a,a)>0, dot(b,b)>0]
na=norm(a); nb=norm(b)
u=[div(a[i],na) for i in range(3)]; v=[div(b[i],nb) for i in range(3)]
c=dot(u,v)
base+=[z3.Not(c<=-1+z3.RealVal('1e-8'))]
Ux=[[u[i]*v[j]-v[i]*u[j] for j in range(3)] for i in range(3)]
mm=lambda A,B:[[sum(A[i][k]*B[k][j] for k in range(3)) for j in range(3)] for i in range(3)]
U2=mm(Ux,Ux)
Rm=[[ (1 if i==j else 0)+Ux[i][j]+div(U2[i][j],1+c) for j in range(3)] for i in range(3)]
which=sys.argv[1]
if which=='map':
    out=[sum(u[i]*Rm[i][j] for i in range(3)) for j in range(3)]
    goals=[out[j]!=v[j] for j in range(3)]
elif which=='orth':
    RRt=mm(Rm,[[Rm[j][i] for j in range(3)] for i in range(3)])
    goals=[RRt[i][j]!=(1 if i==j else 0) for i in range(3) for j in range(i,3)]
for g in goals:
    s=z3.SolverFor('QF_NRA')
    s.add(base); s.add(g)
    s.set('timeout',int(sys.argv[2])*1000)
    t=time.time(); print(which, mode, s.check(), round(time.time()-t,2), flush=True)
