from molli.chem import Atom, Connectivity
from collections import deque
N = 4
PAIRS = [(i, j) for i in range(N) for j in range(i + 1, N)]
def ref_bfs(adj, s):
    dist = {s: 0}; q = deque([s])
    while q:
        u = q.popleft()
        for v in adj[u]:
            if v not in dist: dist[v] = dist[u] + 1; q.append(v)
    return dist
def bfsd(e0: bool, e1: bool, e2: bool, e3: bool, e4: bool, e5: bool, start: int) -> bool:
    """
    pre: 0 <= start < N
    post: _
    """
    bits = [e0, e1, e2, e3, e4, e5]
    c = Connectivity([Atom("C") for _ in range(N)])
    adj = {i: [] for i in range(N)}
    for b, (i, j) in zip(bits, PAIRS):
        if b:
            c.connect(i, j); adj[i].append(j); adj[j].append(i)
    s = 0
    for k in range(N):
        if start == k: s = k
    got = [(c.index_atom(a), d) for a, d in c.yield_bfsd(s)]
    ref = ref_bfs(adj, s)
    ok = sorted(i for i, _ in got) == sorted(k for k in ref if k != s) and all(ref[i] == d for i, d in got)
    ok = ok and all(got[k][1] <= got[k + 1][1] for k in range(len(got) - 1))
    # ring perception vs bridge
    for b in c.bonds:
        i, j = c.index_atom(b.a1), c.index_atom(b.a2)
        adj2 = {u: [v for v in vs if {u, v} != {i, j}] for u, vs in adj.items()}
        bridge = j not in ref_bfs(adj2, i)
        if c.is_bond_in_ring(b) == bridge: ok = False
    return ok
