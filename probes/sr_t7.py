import sr, z3, numpy as np, sys, time
from sr import *
from molli.chem import Structure, Atom, AtomType, Element
import molli.math.rotation as rot
rot.math = sr.mathshim
class SymStructure(Structure, coords_dtype=object): pass
def case(center, nbrs, nb_elem="C"):
    def goals():
        n=len(nbrs)
        C = np.array([[SR(z3.RealVal(0))]*3] + [[SR(z3.Real(f"n{i}{k}")) for k in range(3)] for i in range(n)], dtype=object)
        s = SymStructure([Atom(center)]+[Atom(nb_elem) for _ in range(n)], coords=C)
        for i in range(n): s.connect(0,i+1, btype=nbrs[i])
        a=C[0]
        cen = np.average(C[1:]-a, axis=0)
        CTX.cons.append((cen@cen).e > 0)     # non-degenerate: neighbours' centroid not at the atom
        if n==2:
            cr=np.cross(C[1],C[2]); CTX.cons.append((cr@cr).e>0)
        n0 = s.n_atoms
        s.add_implicit_hydrogens(s.atoms[0])
        L = s.atoms[0].cov_radius_1 + Element.H.cov_radius_1
        g=[]
        for h in range(n0, s.n_atoms):
            d = s.coords[h]-a
            d2=(d@d).e
            g.append((f"H{h} len", z3.Or(d2 > (L*1.001)**2, d2 < (L*0.999)**2)))
            g.append((f"H{h} away", (d@cen).e >= 0))
        g.append(("count", z3.BoolVal(s.n_atoms-n0 != EXPECT)))
        return g
    return goals
for center, nbrs, EXPECT in [("C",[1,1],2), ("C",[2,1],1), ("N",[1,1],1), ("O",[1],1), ("C",[2],2)]:
    print("==",center,nbrs,"expect",EXPECT)
    try:
        for dec,cons,gs in explore(case(center,nbrs)):
            print(" path",dec,"ncons",len(cons))
            for n,g in gs: prove_hard(cons,n,g,60)
    except Exception as e:
        import traceback; traceback.print_exc(limit=3)
