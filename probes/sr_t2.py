import sr, z3, numpy as np
from sr import *
from molli.chem import Structure, Atom
import molli.math.rotation as rot
rot.math = sr.mathshim
class SymStructure(Structure, coords_dtype=object): pass
def mk(n, bonds):
    s = SymStructure([Atom("C") for _ in range(n)], coords=np.array([[SR(z3.Real(f"p{i}{k}")) for k in range(3)] for i in range(n)], dtype=object))
    for a,b in bonds: s.connect(a,b)
    return s
def t_transform():
    s = mk(4, [(0,1),(1,2),(2,3)])
    before = s.coords.copy()
    k = vec("k"); CTX.cons.append((k@k).e > 0)
    R = rot.rotation_matrix_from_axis(k, sym_angle("th"))
    s.transform(R)
    after = s.coords
    d0 = before[0]-before[1]; d1 = after[0]-after[1]
    def vol(c): 
        a=c[1]-c[0]; b=c[2]-c[0]; d=c[3]-c[0]
        return a@np.cross(b,d)
    return [("dist01", (d0@d0).e != (d1@d1).e), ("volume", vol(before).e != vol(after).e)]
for dec,cons,goals in explore(t_transform):
    for n,g in goals: prove(cons,n,g,120)
