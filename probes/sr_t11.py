import sr, z3, numpy as np, sys, time, types, math as realmath
from sr import *
import molli.math.rotation as rot
import molli.ftypes.cdxml as CD
from molli.chem import Structure, Molecule, Atom
class MathShim:
    pi = realmath.pi
    @staticmethod
    def sin(a): return a.s if isinstance(a, Angle) else realmath.sin(a)
    @staticmethod
    def cos(a): return a.c if isinstance(a, Angle) else realmath.cos(a)
rot.math = MathShim
class SymStructure(Structure, coords_dtype=object): pass
SIGN_N = 1.0
def mean_plane_stub(vecs):
    # contract for points in the z=0 plane: unit normal +-z (sign chosen by harness)
    return np.array([0.0, 0.0, SIGN_N])
CD.mean_plane = mean_plane_stub
def run(sign):
    # centre a0 at symbolic planar position with 3 neighbours a1,a2,a3; wedge bond a0->a1
    P = np.array([[SR(z3.Real(f"x{i}")), SR(z3.Real(f"y{i}")), SR(z3.RealVal(0))] for i in range(4)], dtype=object)
    s = SymStructure([Atom("C"), Atom("F"), Atom("Cl"), Atom("Br")], coords=P)
    for j in (1,2,3): s.connect(0,j)
    v = P[1]-P[0]; CTX.cons.append((v@v).e > 0)
    CD._cdxml_3dify_(s, 0, 1, sign=sign)
    c = s.coords
    a=c[1]-c[0]; b=c[2]-c[0]; d=c[3]-c[0]
    return a@np.cross(b,d), c
def goals():
    vp, cp = run(+1); vm, cm = run(-1)
    # mirror: z -> -z, xy equal ; volumes opposite
    g=[("vol-opposite", (vp + vm).e != 0)]
    for i in range(4):
        g += [(f"x{i}", cp[i][0].e != cm[i][0].e), (f"y{i}", cp[i][1].e != cm[i][1].e), (f"z{i}", cp[i][2].e != -cm[i][2].e)]
    # wedge atom goes up (+z) for sign +1
    g.append(("wedge-up", cp[1][2].e <= 0))
    return g
for dec,cons,gs in explore(goals, max_paths=8):
    print("path",dec,"ncons",len(cons),flush=True)
    for n,g in gs: prove_hard(cons,n,g,60)
