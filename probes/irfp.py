import re, z3, sys, time
ll=open('drv.ll').read()
def func(name):
    m=re.search(r'define[^\n]*@%s\((.*?)\)[^\n]*\{\n(.*?)\n\}'%name, ll, re.S)
    return m.group(1), m.group(2)
def run(name, fp):
    args, body = func(name)
    sort = z3.Float32() if fp=='float' else z3.Float64()
    A=[z3.FP(f'a{i}',sort) for i in range(3)]; B=[z3.FP(f'b{i}',sort) for i in range(3)]
    rm=z3.RNE()
    blocks={}; cur=None; order=[]
    for line in body.split('\n'):
        line=line.split(';')[0].rstrip()
        if not line.strip(): continue
        m=re.match(r'^(\d+):',line)
        if m: cur=m.group(1); blocks[cur]=[]; order.append(cur); continue
        if cur is None: cur='entry'; blocks[cur]=[]; order.append(cur)
        blocks[cur].append(line.strip())
    env={'%0':('ptr','A',0),'%1':('ptr','B',0)}
    def val(tok):
        tok=tok.strip()
        if tok in env: return env[tok]
        if re.match(r'^-?\d+$',tok): return int(tok)
        if re.match(r'^[-0-9.e+]+$',tok): return z3.FPVal(float(tok),sort)
        raise KeyError(tok)
    prev=None; cur=order[0]; steps=0
    # entry block label for phi is %2 (implicit numbering): args %0,%1 -> entry is %2
    label={order[0]:'2'}
    while True:
        steps+=1; assert steps<200, "unwinding bound exceeded"
        nxt=None
        for ins in blocks[cur]:
            m=re.match(r'(%\d+) = phi \w+ (.*)',ins)
            if m:
                for v,l in re.findall(r'\[ ([^,]+), %(\d+) \]',m.group(2)):
                    if l==(label.get(prev,prev)): env[m.group(1)]=val(v)
                continue
            m=re.match(r'(%\d+) = getelementptr inbounds \w+, \w+\* (%\d+), i64 (%?\d+)',ins)
            if m: p=val(m.group(2)); env[m.group(1)]=('ptr',p[1],p[2]+val(m.group(3))); continue
            m=re.match(r'(%\d+) = load \w+, \w+\* (%\d+)',ins)
            if m: p=val(m.group(2)); assert 0<=p[2]<3,"oob"; env[m.group(1)]=(A if p[1]=='A' else B)[p[2]]; continue
            m=re.match(r'(%\d+) = (fsub|fmul|fadd) \w+ ([^,]+), (.+)',ins)
            if m:
                x,y=val(m.group(3)),val(m.group(4)); f={'fsub':z3.fpSub,'fmul':z3.fpMul,'fadd':z3.fpAdd}[m.group(2)]
                env[m.group(1)]=f(rm,x,y); continue
            m=re.match(r'(%\d+) = add (?:nuw |nsw )*i64 (%?\d+), (%?\d+)',ins)
            if m: env[m.group(1)]=val(m.group(2))+val(m.group(3)); continue
            m=re.match(r'(%\d+) = icmp eq i64 (%?\d+), (%?\d+)',ins)
            if m: env[m.group(1)]=(val(m.group(2))==val(m.group(3))); continue
            m=re.match(r'br i1 (%\d+), label %(\d+), label %(\d+)',ins)
            if m: nxt=m.group(2) if env[m.group(1)] else m.group(3); continue
            m=re.match(r'br label %(\d+)',ins)
            if m: nxt=m.group(1); continue
            m=re.match(r'ret \w+ (%\d+)',ins)
            if m: return A,B,env[m.group(1)],sort,steps
            raise NotImplementedError(ins)
        prev=cur; cur=nxt
for name,fp in (('k_eu2_f','float'),('k_eu2_d','double')):
    A,B,res,sort,steps=run(name,fp)
    rm=z3.RNE(); d=[z3.fpSub(rm,A[i],B[i]) for i in range(3)]
    zero=z3.FPVal(0.0,sort)
    spec=zero
    for i in range(3): spec=z3.fpAdd(rm,spec,z3.fpMul(rm,d[i],d[i]))
    s=z3.Solver(); s.add(z3.Not(z3.Or(res==spec, z3.And(z3.fpIsNaN(res),z3.fpIsNaN(spec))))); t=time.time(); print(name,'equals sequential IEEE spec:',s.check(),round(time.time()-t,2),'blocks executed',steps)
    # symmetry
    env2=run(name,fp)
    s=z3.Solver(); 
    A2,B2,res2,_,_=env2
    sub=[(A2[i],B[i]) for i in range(3)]+[(B2[i],A[i]) for i in range(3)]
    res_sw=z3.substitute(res2,*sub)
    fin=z3.And(*[z3.Not(z3.fpIsNaN(x)) for x in A+B],*[z3.Not(z3.fpIsInf(x)) for x in A+B])
    s.add(fin, z3.Not(z3.Or(res==res_sw, z3.And(z3.fpIsNaN(res),z3.fpIsNaN(res_sw))))); t=time.time(); print(name,'symmetric:',s.check(),round(time.time()-t,2))
