import molli as ml, numpy as np
from typing import List, Tuple
from molli.chem import Atom, Molecule, Bond, Element

def mk():
    m = Molecule([Atom("C", label="c0"), Atom("N", label="n1"), Atom("O", label="o2"), Atom("C", label="c3")], coords=[[0,0,0],[1,1,1],[2,2,2],[3,3,3]],
                 atomic_charges=[0.0, 0.1, 0.2, 0.3])
    m.connect(0,1); m.connect(1,2); m.connect(2,3)
    return m

def inv(m, tag):
    n = m.n_atoms
    if m.coords.shape != (n, 3): return False
    if m.atomic_charges.shape != (n,): return False
    if m.atomic_charges.dtype.kind != 'f': return False
    for i, a in enumerate(m.atoms):
        if a.parent is not m or a.idx != i: return False
        t = tag[id(a)]
        if not (m.coords[i][0] == t and m.atomic_charges[i] == t / 10): return False
    for b in m.bonds:
        if b.a1 not in m.atoms or b.a2 not in m.atoms: return False
    return True

def conc(x):
    for c in range(6):
        if x == c:
            return c
    return 0

def hist(ops: List[Tuple[int, int, int]]) -> bool:
    """
    pre: len(ops) == 1
    pre: all(0 <= o[0] <= 5 and 0 <= o[1] <= 5 and 0 <= o[2] <= 5 for o in ops)
    post: _
    """
    m = mk()
    tag = {id(a): float(i) for i, a in enumerate(m.atoms)}
    keep = list(m.atoms)
    nxt = 10.0
    for op, i, j in ops:
        op, i, j = conc(op), conc(i), conc(j)
        n = m.n_atoms
        if op == 0:
            a = Atom("H"); keep.append(a); tag[id(a)] = nxt
            m.add_atom(a, [nxt, nxt, nxt], nxt / 10); nxt += 1
        elif op == 1 and i < n:
            m.del_atom(i)
        elif op == 2 and i < n:
            m.del_atom(m.atoms[i])
        elif op == 3 and i < n and j < n and i != j and m.lookup_bond(i, j) is None:
            m.connect(i, j)
        elif op == 4 and i < m.n_bonds:
            m.del_bond(m.bonds[i])
        elif op == 5 and i < n:
            lbl = m.atoms[i].label
            if lbl is not None: m.del_atom(lbl)
    return inv(m, tag)
