import molli as ml
from molli.chem import Atom, AtomType, AtomGeom, Element

ATYPES = [int(x) for x in AtomType]
GEOMS = [int(x) for x in AtomGeom]

def token_accepted(z: int, atype: int, geom: int) -> bool:
    """
    pre: 0 <= z <= 118
    pre: atype in ATYPES
    pre: geom in GEOMS
    post: _
    """
    a = Atom(Element(z), atype=atype, geom=geom)
    tok = a.get_mol2_type()
    b = Atom()
    b.set_mol2_type(tok)
    tok2 = b.get_mol2_type()
    # element preserved unless dummy; token is a fixed point
    return (b.element == a.element) and tok2 == tok
