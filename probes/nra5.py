import z3, time
R=z3.Real
an=[R(f'a{i}') for i in range(3)]; on=[R(f'o{i}') for i in range(3)]; bn=[R(f'b{i}') for i in range(3)]
M0=[[R(f'm{i}{j}') for j in range(3)] for i in range(3)]; M1=[[R(f'n{i}{j}') for j in range(3)] for i in range(3)]
vm=lambda v,M:[sum(v[i]*M[i][j] for i in range(3)) for j in range(3)]
mm=lambda A,B:[[sum(A[i][k]*B[k][j] for k in range(3)) for j in range(3)] for i in range(3)]
cons=[vm(an,M0)[j]==on[j] for j in range(3)]+[vm(on,M1)[j]==bn[j] for j in range(3)]
out=vm(an,mm(M0,M1))
for j in range(3):
    for name,s in (("nra",z3.SolverFor("QF_NRA")),("default",z3.Solver())):
        s.set("timeout",30000); s.add(cons); s.add(out[j]!=bn[j]); t=time.time(); print(j,name,s.check(),round(time.time()-t,2),flush=True)
