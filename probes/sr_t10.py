import sr, z3, numpy as np, sys, time
from sr import *
# extend proxy: floor division and int() with feasible-value enumeration
def _floordiv(s, o):
    q = s / o
    k = z3.ToInt(q.e)
    return SInt(k)
SR.__floordiv__ = _floordiv
class SInt:
    def __init__(s, e): s.e = e
    def __int__(s):
        # realise: pick decision index -> value, enumerate feasible values 0..6
        for v in range(0, 7):
            if bool(SB(s.e == v)): return v
        raise Abort("count out of bound")
    __index__ = __int__
from molli.descriptor.gridbased import rectangular_grid
def goals():
    r1 = vec("l"); r2 = vec("r")
    pad = SR(z3.Real("pad")); sp = SR(z3.Real("sp"))
    CTX.cons += [pad.e >= 0, sp.e > 0] + [ (r2[i]-r1[i]).e >= 0 for i in range(3)] + [ (r2[i]-r1[i]+2*pad).e < 3*sp.e for i in range(3)]
    g = rectangular_grid(r1, r2, padding=pad, spacing=sp, dtype=object)
    L = r1 - pad; R = r2 + pad
    out=[]
    n = g.shape[0]
    xs = sorted(set(range(n)))
    # containment of every point, per coordinate
    for p in range(n):
        for k in range(3):
            out.append((f"in{p}{k}", z3.Or(g[p,k].e < L[k].e, g[p,k].e > R[k].e)))
    out.append(("npts", z3.BoolVal(False)))
    return out, g.shape
import sr as _sr
_sr.FEAS_TIMEOUT = 10000
res = explore(goals, max_paths=64)
print("paths:", len(res))
for dec,cons,(gs,shape) in res[:4]:
    print("path",dec,"shape",shape)
    bad=[n for n,g in gs[:6] if prove_hard(cons,n,g,30)!="unsat"]
