import sr, z3, numpy as np, sys, multiprocessing as mp, time
from sr import *
from molli.chem import Structure, Atom
import molli.math.rotation as rot
rot.math = sr.mathshim
class SymStructure(Structure, coords_dtype=object): pass
def build():
    Z = SR(z3.RealVal(0))
    d = SR(z3.Real("d")); CTX.cons.append(d.e > 0)
    x0,z0,x3,y3,z3_ = [SR(z3.Real(n)) for n in ("x0","z0","x3","y3","z3")]
    y0=SR(z3.Real("y0")); C = np.array([[x0,y0,z0],[Z,Z,Z],[Z,Z,d],[x3,y3,z3_]],dtype=object)
    s = SymStructure([Atom("C") for _ in range(4)], coords=C)
    for a,b in [(0,1),(1,2),(2,3)]: s.connect(a,b)
    CTX.cons += [(x0*x0+y0*y0).e > 0, (x3*x3+y3*y3).e > 0]
    tgt = sym_angle("tgt")
    s.rotate_dihedral((0,1,2,3), tgt)
    new = s.dihedral(0,1,2,3)   # Angle(c = x/r, s = y/r); raw numerators kept below
    return s, new, tgt
def goals():
    s,new,tgt = build()
    # direction equality without the second sqrt: use raw (x,y) recorded on the Angle
    X,Y = new.rawx, new.rawy
    return [("cross", (Y*tgt.c - X*tgt.s).e != 0), ("same-dir", (X*tgt.c + Y*tgt.s).e <= 0)]
# record raw args in arctan2
_old = SR.arctan2
def arctan2(y,x):
    a=_old(y,x); a.rawx = x if isinstance(x,SR) else SR(lift(x)); a.rawy=y; return a
SR.arctan2 = arctan2
def work(i,q):
    res = explore(goals)
    dec,cons,gs = res[0]
    s=z3.SolverFor("QF_NRA"); s.add(cons); s.add(gs[i][1]); t=time.time(); r=s.check(); q.put((gs[i][0],str(r),time.time()-t))
if __name__=="__main__":
    for i in range(2):
        q=mp.Queue(); p=mp.Process(target=work,args=(i,q)); p.start(); p.join(int(sys.argv[1]))
        if p.is_alive(): p.kill(); print(i,"TIMEOUT (hard kill)")
        else: print(q.get())
