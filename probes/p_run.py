import types, sys
import molli as ml
import molli.pipeline.runner as RUN
from molli.pipeline.job import JobInput, JobOutput
from typing import List, Optional

class World:
    def __init__(self):
        self.files = {}      # abs path -> content
        self.cwd = "/home"
        self.tmp_created = []; self.tmp_removed = []
        self.ran = []
        self.dumped = None
W = None
def ap(p):
    p = str(p)
    return p if p.startswith("/") else W.cwd.rstrip("/") + "/" + p
class FPath:
    def __init__(self, p): self.p = str(p)
    def __truediv__(self, o): return FPath(self.p.rstrip("/") + "/" + str(o))
    def __str__(self): return self.p
    def __fspath__(self): return self.p
    def mkdir(self, parents=False, exist_ok=False): pass
    def is_file(self): return ap(self.p) in W.files
    def read_bytes(self):
        c = W.files[ap(self.p)]; return c.encode() if isinstance(c, str) else c
    @property
    def stem(self): return self.p.rsplit("/", 1)[-1].rsplit(".", 1)[0]
class FFile:
    def __init__(self, path, mode): self.path = ap(path); self.mode = mode; self.buf = "" if "t" in mode else b""
    def __enter__(self):
        if "w" in self.mode: W.files[self.path] = self.buf
        return self
    def __exit__(self, *a): return False
    def write(self, s): W.files[self.path] = W.files[self.path] + s
    def read(self): return W.files[self.path]
def fopen(path, mode="rt"): return FFile(path, mode)
class FTmp:
    def __init__(self, dir=None, prefix=""): self.name = str(dir).rstrip("/") + "/" + prefix + "T"
    def __enter__(self): W.tmp_created.append(self.name); return self.name
    def __exit__(self, *a):
        W.tmp_removed.append(self.name)
        for k in list(W.files):
            if k.startswith(self.name + "/"): del W.files[k]
        return False
class FOS:
    environ = {"PATH": "/bin"}
    @staticmethod
    def getcwd(): return W.cwd
    @staticmethod
    def chdir(p): W.cwd = str(p)
class Proc:
    def __init__(self, rc): self.returncode = rc
SCRIPT = None
def frun(argv, cwd=None, env=None, stderr=None, stdout=None, encoding=None):
    i = len(W.ran); W.ran.append((list(argv), str(cwd), dict(env)))
    rc, makes = SCRIPT[i]
    if hasattr(stdout, "write"): stdout.write(f"out{i}"); stderr.write(f"err{i}")
    for fn in makes: W.files[str(cwd).rstrip("/") + "/" + fn] = b"DATA:" + fn.encode()
    return Proc(rc)

def install(job):
    RUN.Path = FPath; RUN.open = fopen; RUN.TemporaryDirectory = FTmp; RUN.os = FOS; RUN.run = frun
    RUN.arg_parser = types.SimpleNamespace(parse_args=lambda: types.SimpleNamespace(job=FPath("/in/j1.inp"), output_dir="/out", scratch_dir="/scr"))
    class JI:
        @staticmethod
        def load(fn): return job
    class JO(JobOutput):
        def dump(self, fn): W.dumped = (str(fn), self)
    RUN.ml = types.SimpleNamespace(pipeline=types.SimpleNamespace(JobInput=JI, JobOutput=JO))

def _mk(n, nm1):
    cmds = [(f"prog{i} arg", ("n%d" % i) if (i != 1 or nm1) else None) for i in range(n)]
    job0 = JobInput("jid", commands=cmds, files={"a.txt": "hello", "b.bin": b"\x00\x01"}, return_files=("r0", "r1"), envars={"X": "1"})
    h = job0.hash
    class JI2(JobInput):
        hash = property(lambda self: h)
    job = JI2("jid", commands=cmds, files={"a.txt": "hello", "b.bin": b"\x00\x01"}, return_files=("r0", "r1"), envars={"X": "1"})
    return job, cmds, h
JOBS = {(n, b): _mk(n, b) for n in range(1, 4) for b in (True, False)}

def conc(x, n):
    for c in range(n):
        if x == c: return c
    return 0

def exit_status(ncmd: int, rc0: int, rc1: int, rc2: int, f0: bool, f1: bool, named1: bool) -> bool:
    """
    pre: 1 <= ncmd <= 3
    pre: -2 <= rc0 <= 2 and -2 <= rc1 <= 2 and -2 <= rc2 <= 2
    post: _
    """
    global W, SCRIPT
    W = World()
    n = conc(ncmd, 4)
    rcs = [rc0, rc1, rc2][:n]
    nm1 = True if named1 else False
    job, cmds, jhash = JOBS[(n, nm1)]
    # last executed command produces requested files according to f0/f1
    SCRIPT = [(rcs[i], ([] if i < n - 1 else (["r0"] * f0 + ["r1"] * f1))) for i in range(n)]
    first_fail = next((i for i, r in enumerate(rcs) if r != 0), None)
    if first_fail is not None: SCRIPT[first_fail] = (rcs[first_fail], SCRIPT[n - 1][1])
    install(job)
    try:
        RUN.run_local(); code = None
    except SystemExit as e:
        code = e.code
    n_expected_runs = n if first_fail is None else first_fail + 1
    all_ok = first_fail is None and f0 and f1
    out = W.dumped[1]
    ok = (len(W.ran) == n_expected_runs
          and ((code == 0) == all_ok)
          and W.tmp_created == W.tmp_removed and W.cwd == "/home"
          and out.input_hash == jhash
          and set(out.files) == set((["r0"] if f0 else []) + (["r1"] if f1 else []))
          and all(W.ran[i][2].get("X") == "1" for i in range(len(W.ran)))
          and all(out.stdouts.get(cmds[i][1]) == f"out{i}" for i in range(n_expected_runs) if cmds[i][1]))
    return ok
