import molli as ml, numpy as np
from typing import Optional
from molli.chem import Atom, Molecule, Bond
from molli.chem import io as mio

class FakeMsgpack:
    """identity codec with msgpack's container semantics (tuple/list -> tuple when use_list=False)"""
    @staticmethod
    def norm(x):
        if isinstance(x, (list, tuple)): return tuple(FakeMsgpack.norm(y) for y in x)
        if isinstance(x, dict): return {FakeMsgpack.norm(k): FakeMsgpack.norm(v) for k, v in x.items()}
        return x

def rt(iso: Optional[int], label: Optional[str], atype: int, stereo: int, geom: int, fc: int, fs: int,
       charge: int, mult: int, name: str, bt: int, bs: int) -> bool:
    """
    pre: -9 <= charge <= 9 and 1 <= mult <= 9 and -4 <= fc <= 4 and 0 <= fs <= 4
    pre: iso is None or 0 <= iso <= 300
    pre: label is None or len(label) <= 2
    pre: len(name) <= 2
    pre: 0 <= atype < 300 and 0 <= stereo < 40 and 0 <= geom < 70 and 0 <= bt <= 101 and 0 <= bs <= 21
    post: _
    """
    z = 0
    a = Atom(z, isotope=iso, label=label, atype=atype, stereo=stereo, geom=geom, formal_charge=fc, formal_spin=fs)
    b = Atom(6)
    m = Molecule([a, b], name=name, charge=charge, mult=mult, coords=[[0, 0, 0], [1, 2, 3]], atomic_charges=[0.5, -0.25])
    m.connect(0, 1, btype=bt, stereo=bs)
    t = FakeMsgpack.norm(mio._serialize_mol_v2(m))
    r = mio._deserialize_mol_v2(t)
    ra = r.atoms[0]
    return (r.name == m.name and r.charge == charge and r.mult == mult and int(ra.element) == z and ra.isotope == iso
            and ra.label == label and ra.atype == atype and ra.stereo == stereo and ra.geom == geom
            and ra.formal_charge == fc and ra.formal_spin == fs and r.bonds[0].btype == bt and r.bonds[0].stereo == bs
            and r.bonds[0].a1 is r.atoms[0] and r.bonds[0].a2 is r.atoms[1] and np.allclose(r.coords, m.coords))
