import sr, z3, numpy as np, sys, time, types
from sr import *
import molli.math.rotation as rot
rot.math = sr.mathshim
ORIG = rot.rotation_matrix_from_vectors
class NPX:
    """numpy with a nondeterministic random.rand"""
    def __getattr__(self, n): return getattr(np, n)
    class random:
        @staticmethod
        def rand(n):
            k = len([1 for key in CTX.memo if key.startswith("rand")])
            CTX.memo[f"rand{k}"] = True
            v = vec(f"rv{k}_", n)
            for x in v: CTX.cons += [x.e >= 0, x.e < 1]
            return v
CALLS = []
def contract(u, v, tol=1e-8):
    u = np.array(u); v = np.array(v)
    un = u/np.linalg.norm(u); vn = v/np.linalg.norm(v)
    c = un@vn
    CALLS.append(("pre-generic", (c <= -1 + tol).c))      # obligation: recursive call must be in the generic branch
    k = vec(f"k{len(CALLS)}_"); CTX.cons.append((k@k).e > 0)
    M = rot.rotation_matrix_from_axis(k, sym_angle(f"phi{len(CALLS)}"))
    img = un@M
    for j in range(3): CTX.cons.append(img[j].e == vn[j].e)
    return M
def goals():
    CALLS.clear()
    rot.np = NPX(); rot.rotation_matrix_from_vectors = contract
    try:
        a = vec("a"); b = vec("b")
        CTX.cons += [(a@a).e > 0, (b@b).e > 0]
        R = ORIG(a, b)
    finally:
        rot.np = np; rot.rotation_matrix_from_vectors = ORIG
    an = a/np.linalg.norm(a); bn = b/np.linalg.norm(b)
    out = an@R
    g = [(f"map{j}", out[j].e != bn[j].e) for j in range(3)]
    RRt = R@R.T
    g += [(f"orth{i}{j}", RRt[i,j].e != (1 if i==j else 0)) for i in range(3) for j in range(i,3)]
    g += [("det", det3(R).e != 1)]
    g += [(n, c) for n, c in CALLS]
    return g
sr.FEAS_TIMEOUT = 30000
res = explore(goals, max_paths=8)
for dec,cons,gs in res:
    print("path",dec,"ncons",len(cons), flush=True)
    if dec and dec[0]:
        for n,g in gs: prove_hard(cons,n,g,90)
