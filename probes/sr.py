"""SR prototype: symbolic-real execution of molli numeric code over numpy object arrays + z3 QF_NRA.
Throw-away design probe (not the framework)."""
import z3, numpy as np, time, types, sys
from fractions import Fraction


class Abort(BaseException):
    pass


class Ctx:
    def __init__(self):
        self.reset([])

    def reset(self, decisions):
        self.cons = []
        self.oblig = []  # side obligations (denominators non-zero)
        self.n = 0
        self.memo = {}
        self.decisions = list(decisions)
        self.pos = 0
        self.trace = []

    def fresh(self, p):
        self.n += 1
        return z3.Real(f"{p}!{self.n}")


CTX = Ctx()
FEAS_TIMEOUT = 20000


def feasible(extra):
    s = z3.SolverFor("QF_NRA")
    s.set("timeout", FEAS_TIMEOUT)
    s.add(CTX.cons)
    s.add(extra)
    r = s.check()
    return str(r)  # sat / unsat / unknown


def lift(x):
    if isinstance(x, SR):
        return x.e
    if isinstance(x, (bool, np.bool_)):
        return z3.RealVal(int(x))
    if isinstance(x, (int, np.integer)):
        return z3.RealVal(int(x))
    if isinstance(x, (float, np.floating)):
        f = Fraction(float(x))
        return z3.RealVal(f"{f.numerator}/{f.denominator}")
    raise TypeError(type(x))


def _arr(o):
    return isinstance(o, np.ndarray)


class SB:
    """symbolic bool; __bool__ forks"""

    def __init__(self, c):
        self.c = c

    def __bool__(self):
        if CTX.pos < len(CTX.decisions):
            d = CTX.decisions[CTX.pos]
        else:
            # choose first feasible branch: try True then False
            ft = feasible(self.c)
            ff = feasible(z3.Not(self.c))
            if ft == "unsat" and ff == "unsat":
                raise Abort("infeasible path")
            if ft != "unsat":
                d = True
                CTX.trace.append((len(CTX.decisions), ff != "unsat"))  # alt exists?
            else:
                d = False
                CTX.trace.append((len(CTX.decisions), False))
            CTX.decisions.append(d)
        CTX.pos += 1
        CTX.cons.append(self.c if d else z3.Not(self.c))
        return d

    def __and__(self, o):
        return SB(z3.And(self.c, o.c if isinstance(o, SB) else z3.BoolVal(bool(o))))

    def __or__(self, o):
        return SB(z3.Or(self.c, o.c if isinstance(o, SB) else z3.BoolVal(bool(o))))

    def __invert__(self):
        return SB(z3.Not(self.c))


class SR:
    def __init__(self, e):
        self.e = e

    def __add__(s, o):
        if _arr(o): return NotImplemented
        return SR(s.e + lift(o))
    __radd__ = __add__

    def __sub__(s, o):
        if _arr(o): return NotImplemented
        return SR(s.e - lift(o))

    def __rsub__(s, o):
        if _arr(o): return NotImplemented
        return SR(lift(o) - s.e)

    def __mul__(s, o):
        if _arr(o): return NotImplemented
        return SR(s.e * lift(o))
    __rmul__ = __mul__

    def __neg__(s):
        return SR(-s.e)

    def __pos__(s):
        return s

    def __truediv__(s, o):
        if _arr(o): return NotImplemented
        d = z3.simplify(lift(o))
        if z3.is_rational_value(d):
            return SR(s.e / d)
        key = "rcp" + d.sexpr()
        if key not in CTX.memo:
            r = CTX.fresh("rcp")
            CTX.cons.append(r * d == 1)
            CTX.oblig.append(d != 0)
            CTX.memo[key] = r
        return SR(s.e * CTX.memo[key])

    def __rtruediv__(s, o):
        if _arr(o): return NotImplemented
        return SR(lift(o)).__truediv__(s)

    def __pow__(s, k):
        assert k == 2
        return SR(s.e * s.e)

    def sqrt(s):
        e = z3.simplify(s.e)
        key = "sqrt" + e.sexpr()
        if key not in CTX.memo:
            r = CTX.fresh("sqrt")
            CTX.cons += [r >= 0, r * r == e]
            CTX.memo[key] = r
        return SR(CTX.memo[key])

    def __abs__(s):
        return SR(z3.If(s.e >= 0, s.e, -s.e))

    def _cmp(s, o, f):
        if _arr(o): return NotImplemented
        return SB(f(s.e, lift(o)))

    def __le__(s, o): return s._cmp(o, lambda a, b: a <= b)
    def __lt__(s, o): return s._cmp(o, lambda a, b: a < b)
    def __ge__(s, o): return s._cmp(o, lambda a, b: a >= b)
    def __gt__(s, o): return s._cmp(o, lambda a, b: a > b)
    def __eq__(s, o): return s._cmp(o, lambda a, b: a == b)
    def __ne__(s, o): return s._cmp(o, lambda a, b: a != b)
    __hash__ = None

    def __bool__(s):
        return bool(SB(s.e != 0))

    def arctan2(y, x):
        # numpy calls y.arctan2(x)
        x = x if isinstance(x, SR) else SR(lift(x))
        r = (x * x + y * y).sqrt()
        return Angle(x / r, y / r)

    def __repr__(s):
        return f"SR({s.e})"


class Angle:
    """point on the unit circle"""

    def __init__(s, c, sn):
        s.c = c if isinstance(c, SR) else SR(lift(c))
        s.s = sn if isinstance(sn, SR) else SR(lift(sn))

    def __sub__(a, b):
        return Angle(a.c * b.c + a.s * b.s, a.s * b.c - a.c * b.s)

    def __add__(a, b):
        return Angle(a.c * b.c - a.s * b.s, a.s * b.c + a.c * b.s)

    def __neg__(a):
        return Angle(a.c, -a.s)


mathshim = types.SimpleNamespace(sin=lambda a: a.s, cos=lambda a: a.c, pi=3.141592653589793)


def sym_angle(name):
    c, s = z3.Real(name + "_c"), z3.Real(name + "_s")
    CTX.cons.append(c * c + s * s == 1)
    return Angle(SR(c), SR(s))


def vec(name, n=3):
    return np.array([SR(z3.Real(f"{name}{i}")) for i in range(n)], dtype=object)


def mat(name, r, c):
    return np.array([[SR(z3.Real(f"{name}{i}{j}")) for j in range(c)] for i in range(r)], dtype=object)


def explore(fn, max_paths=16):
    """run fn() once per feasible decision vector; fn returns list of (name, negated_goal)"""
    results = []
    stack = [[]]
    seen = 0
    while stack:
        dec = stack.pop()
        CTX.reset(dec)
        try:
            goals = fn()
        except Abort:
            continue
        seen += 1
        assert seen <= max_paths, "path bound exhausted"
        # schedule alternatives
        for idx, alt in CTX.trace:
            if alt:
                stack.append(CTX.decisions[:idx] + [not CTX.decisions[idx]])
        results.append((list(CTX.decisions), list(CTX.cons), goals))
    return results


def prove(cons, name, neg, timeout=120):
    s = z3.SolverFor("QF_NRA")
    s.set("timeout", timeout * 1000)
    s.add(cons)
    s.add(neg)
    t = time.time()
    r = s.check()
    print(f"   {name:28s} {str(r):8s} {time.time()-t:6.2f}s", flush=True)
    return str(r)


def det3(R):
    return (R[0, 0] * (R[1, 1] * R[2, 2] - R[1, 2] * R[2, 1]) - R[0, 1] * (R[1, 0] * R[2, 2] - R[1, 2] * R[2, 0])
            + R[0, 2] * (R[1, 0] * R[2, 1] - R[1, 1] * R[2, 0]))


import multiprocessing as _mp


def _chk(cons, neg, q):
    s = z3.SolverFor("QF_NRA")
    s.add(cons)
    s.add(neg)
    t = time.time()
    r = s.check()
    q.put((str(r), time.time() - t))


def prove_hard(cons, name, neg, timeout=60):
    q = _mp.Queue()
    p = _mp.Process(target=_chk, args=(cons, neg, q))
    p.start()
    p.join(timeout)
    if p.is_alive():
        p.kill(); p.join()
        print(f"   {name:28s} TIMEOUT  {timeout:6.2f}s (hard kill)", flush=True)
        return "timeout"
    r, dt = q.get()
    print(f"   {name:28s} {r:8s} {dt:6.2f}s", flush=True)
    return r


def feasible(extra):  # noqa: F811  (hard-timeout version)
    q = _mp.Queue()
    p = _mp.Process(target=_chk, args=(list(CTX.cons), extra, q))
    p.start()
    p.join(FEAS_TIMEOUT / 1000)
    if p.is_alive():
        p.kill(); p.join()
        return "unknown"
    return q.get()[0]
