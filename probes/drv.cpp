#include <initializer_list>
#include "/repo/molli_xt/distance.cpp"
extern "C" float k_eu2_f(const float*a,const float*b){ return molli::euclidean2<float,3>(a,b);} 
extern "C" double k_eu2_d(const double*a,const double*b){ return molli::euclidean2<double,3>(a,b);} 
extern "C" float k_eu_f(const float*a,const float*b){ return molli::euclidean<float,3>(a,b);} 
